"""Shared Hypothesis strategies (cases are JSON-able dicts) and builders (DESIGN section 3)."""
from __future__ import annotations

import math

import numpy as np
from hypothesis import strategies as st

DIM_POOLS = [
    ["x", "y", "z", "w"],
    ["a", "b", "c", "d"],
    ["x0", "x1", "x2", "x3"],
    ["r", "s", "t", "u"],
    ["lon", "lat", "alt", "tau"],
    ["p_1", "q_2", "ax3", "Dim4"],
    ["z", "y", "x", "t"],
    ["kx", "ky", "kz", "kt"],  # names that look like reciprocal-space names
    ["h", "k", "l", "kappa"],
    ["k_x", "k_y", "kk", "k_"],
]
UNIT_POOL = ["m", "nm", "s", "T", "rad", "um", "km", "A"]
VDIM_POOLS = [
    ["x", "y", "z", "t"],
    ["a", "b", "c", "d"],
    ["mx", "my", "mz", "mw"],
    ["m_x", "m_y", "m_z", "m_w"],
    ["v0", "v1", "v2", "v3"],
    ["p", "q", "r2", "s_3"],
    ["z", "x", "y", "w"],
    # accepted labels that are also the names of attributes removed from Field (their access prints a hint)
    ["value", "average", "write", "project"],
]
FIELD_UNITS = [None, "A/m", "T", "J/m3", "V"]
SUBREGION_NAME_POOLS = [
    ["sr_a", "sB", "r3"],
    ["gr\u00f6\u00dfe", "layer_\u03b1", "\u78c1\u533a"],
    ["\u00e4b", "\u00e4c", "\u00e4"],
    ["free layer", "pinned-layer", "x.y"],
    ["z", "a", "m"],  # definition order is not alphabetical
]


def dims_strategy(ndim, default_ok=True):
    def pick(pool_perm):
        pool, perm = pool_perm
        return [pool[i] for i in perm[:ndim]]

    named = st.tuples(st.sampled_from(DIM_POOLS), st.permutations(range(4))).map(pick)
    if default_ok:
        return st.one_of(st.none(), named)
    return named


@st.composite
def geom(
    draw,
    ndim=(1, 4),
    nmin=1,
    nmax=6,
    exps=(-12, 6),
    names=True,
    big_offsets=True,
    maxcells=None,
    int_corners=True,
    units=True,
    tol=True,
    aniso=False,
):
    """Region + cell counts.  Keys: p1 p2 n dims units tol (JSON-able)."""
    nd = draw(st.integers(*ndim)) if isinstance(ndim, tuple) else ndim
    n = [draw(st.integers(nmin, nmax)) for _ in range(nd)]
    if maxcells:
        while math.prod(n) > maxcells:
            j = n.index(max(n))
            n[j] = max(nmin, n[j] // 2)
    snapped = int_corners and draw(st.integers(0, 5)) == 0
    p1, p2 = [], []
    if snapped:
        for d in range(nd):
            c = draw(st.integers(1, 3))
            off = draw(st.integers(-20, 20))
            lo, hi = off * c, off * c + n[d] * c
            if draw(st.integers(0, 2)) == 0:
                # integer-typed corners whose edge is NOT a multiple of the cell count: fractional cells and vertices
                hi = lo + draw(st.integers(1, 12))
            p1.append(lo)
            p2.append(hi)
        e = 0
    else:
        e = draw(st.integers(*exps))
        scale = 10.0**e
        for d in range(nd):
            if draw(st.booleans()):
                mant = draw(st.integers(1, 30)) / 10
            else:
                mant = draw(st.floats(0.125, 3.0, allow_nan=False))
            c = mant * scale
            okind = draw(st.integers(0, 5 if big_offsets else 3))
            if okind == 0:
                off = 0
            elif okind <= 2:
                off = draw(st.integers(-12, 12))
            elif okind == 3:
                off = draw(st.floats(-50, 50, allow_nan=False))
            else:
                off = draw(st.sampled_from([-1, 1])) * 10 ** draw(st.integers(2, 6)) + draw(
                    st.integers(0, 9)
                )
            lo = off * c
            hi = lo + n[d] * c
            p1.append(float(lo))
            p2.append(float(hi))
    stretched = False
    if aniso and not snapped and nd >= 2 and draw(st.integers(0, 3)) == 0:
        # thin films and long wires: one axis 1e2 ... 1e5 times longer than the others
        d = draw(st.integers(0, nd - 1))
        f = 10.0 ** draw(st.integers(2, 5))
        p1[d], p2[d] = p1[d] * f, p2[d] * f
        stretched = True
    # either corner order per axis
    for d in range(nd):
        if draw(st.integers(0, 3)) == 0:
            p1[d], p2[d] = p2[d], p1[d]
    g = {"p1": p1, "p2": p2, "n": n, "exp": e}
    if stretched:
        g["stretched"] = True  # callers drop subregions: the alignment tolerance is an absolute 1e-12
    g["dims"] = draw(dims_strategy(nd)) if names else None
    if units and draw(st.booleans()):
        g["units"] = [draw(st.sampled_from(UNIT_POOL)) for _ in range(nd)]
    else:
        g["units"] = None
    g["tol"] = draw(st.sampled_from([None, None, 1e-10, 1e-9])) if tol else None
    # the same mesh requested by cell size (edges / n as computed) instead of by cell counts
    g["by_cell"] = draw(st.integers(0, 3)) == 0
    return g


def dims_of(g):
    if g.get("dims"):
        return list(g["dims"])
    nd = len(g["n"])
    return ["x", "y", "z"][:nd] if nd <= 3 else [f"x{i}" for i in range(nd)]


def units_of(g):
    return list(g["units"]) if g.get("units") else ["m"] * len(g["n"])


def lattice_of(g):
    from pbt.ref.lattice import Lattice

    return Lattice(g["p1"], g["p2"], g["n"])


def build_region(g, container="tuple"):
    import discretisedfield as df

    conv = {"tuple": tuple, "list": list, "array": np.array}[container]
    p1, p2 = g["p1"], g["p2"]
    if len(p1) == 1 and container == "scalar":
        p1, p2 = p1[0], p2[0]
    else:
        p1, p2 = conv(p1), conv(p2)
    kw = {}
    if g.get("dims"):
        kw["dims"] = list(g["dims"])
    if g.get("units"):
        kw["units"] = list(g["units"])
    if g.get("tol") is not None:
        kw["tolerance_factor"] = g["tol"]
    return df.Region(p1=p1, p2=p2, **kw)


def sub_corners(g, lo, hi):
    """Corners of the index box [lo, hi) computed with the library-independent formula."""
    lat = lattice_of(g)
    a = [float(lat.vertex(d, lo[d])) for d in range(lat.ndim)]
    b = [float(lat.vertex(d, hi[d])) for d in range(lat.ndim)]
    return a, b


@st.composite
def geom_int(draw, ndim=(1, 4), kmax=4, fractional=True, names=True, maxcells=400):
    """integer-typed corners; with fractional=True the cell size is 1/2 or 1/4 of an integer (n multiplied)"""
    nd = draw(st.integers(*ndim)) if isinstance(ndim, tuple) else ndim
    n, p1, p2 = [], [], []
    for _ in range(nd):
        c = draw(st.integers(1, 3))
        k = draw(st.integers(1, kmax))
        off = draw(st.integers(-6, 6))
        mult = draw(st.sampled_from([1, 2, 4, 5])) if fractional else 1
        n.append(k * mult)
        p1.append(off * c)
        p2.append(off * c + k * c)
    while math.prod(n) > maxcells:
        j = n.index(max(n))
        n[j] = max(1, n[j] // 2)
    return {"p1": p1, "p2": p2, "n": n, "exp": 0, "dims": draw(dims_strategy(nd)) if names else None,
            "units": None, "tol": None, "int_subs": draw(st.booleans())}


def build_mesh(g, bc="", subs=None, region=None):
    """subs: list of [name, lo_idx, hi_idx] (index boxes).  With g['int_subs'] subregion corners that are
    whole numbers are passed as Python ints (integer-typed subregions)."""
    import discretisedfield as df

    region = region if region is not None else build_region(g)
    sr = None
    if subs:
        sr = {}
        for name, lo, hi in subs:
            a, b = sub_corners(g, lo, hi)
            if g.get("int_subs") and all(float(x).is_integer() for x in a + b):
                a, b = [int(x) for x in a], [int(x) for x in b]
            sr[name] = df.Region(p1=a, p2=b)
    n = tuple(int(i) for i in g["n"])
    if g.get("by_cell"):
        cell = tuple(float(e) / k for e, k in zip(region.edges, n))
        try:
            m = df.Mesh(region=region, cell=cell, bc=bc, subregions=sr)
            if tuple(int(i) for i in m.n) == n:
                return m
        except ValueError:
            pass  # not commensurate within the 0.1 % test (far-away meshes): acceptance itself is C01's subject
    return df.Mesh(region=region, n=n, bc=bc, subregions=sr)


@st.composite
def index_boxes(draw, n, max_boxes=3, min_boxes=0):
    k = draw(st.integers(min_boxes, max_boxes))
    # any string is accepted as a subregion name: mostly identifiers, now and then other scripts, blanks and punctuation,
    # names of unequal length in bytes and characters
    pick = ((draw(st.integers(0, 2**32)) + 0x5B) * 0x9E3779B97F4A7C15) % 2**64 >> 17 if k else 0
    names = SUBREGION_NAME_POOLS[0] if pick % 4 else SUBREGION_NAME_POOLS[1 + (pick // 4) % (len(SUBREGION_NAME_POOLS) - 1)]
    out = []
    for j in range(k):
        lo, hi = [], []
        for nd in n:
            a = draw(st.integers(0, nd - 1))
            b = draw(st.integers(a + 1, nd))
            lo.append(a)
            hi.append(b)
        out.append([names[j], lo, hi])
    return out


# --------------------------------------------------------------------------
# field data


def make_array(seed, shape, kind="int", dtype="float"):
    """Deterministic non-uniform data from a drawn integer.

    kind 'int': small integers (exact in float arithmetic); 'float': uniform floats.
    """
    rng = np.random.default_rng(int(seed))
    if kind == "int":
        a = rng.integers(-9, 10, size=shape).astype(float)
    else:
        a = rng.uniform(-1, 1, size=shape)
    if dtype == "complex":
        if kind == "int":
            b = rng.integers(-9, 10, size=shape).astype(float)
        else:
            b = rng.uniform(-1, 1, size=shape)
        return a + 1j * b
    if dtype == "int":
        return a.astype(np.int64) if kind == "int" else (a * 100).astype(np.int64)
    return a


def make_mask(spec, n):
    """spec: ["all"] | ["rand", seed, density] | ["box", lo, hi] | ["single", idx] | ["stripe", axis, k]"""
    n = tuple(int(i) for i in n)
    kind = spec[0]
    if kind == "all":
        return np.ones(n, dtype=bool)
    if kind == "rand":
        rng = np.random.default_rng(int(spec[1]))
        return rng.random(n) < spec[2]
    m = np.ones(n, dtype=bool)
    if kind == "box":  # invalid box
        sl = tuple(slice(min(a, k - 1), max(min(b, k), min(a, k - 1) + 1)) for a, b, k in zip(spec[1], spec[2], n))
        m[sl] = False
        return m
    if kind == "single":
        idx = tuple(min(i, k - 1) for i, k in zip(spec[1], n))
        m[idx] = False
        return m
    if kind == "stripe":
        ax = spec[1] % len(n)
        sl = [slice(None)] * len(n)
        sl[ax] = spec[2] % n[ax]
        m[tuple(sl)] = False
        return m
    raise ValueError(kind)


@st.composite
def mask_spec(draw, ndim, allow_all=True):
    k = draw(st.integers(0 if allow_all else 1, 4))
    if k == 0:
        return ["all"]
    if k == 1:
        return ["rand", draw(st.integers(0, 2**31)), draw(st.sampled_from([0.3, 0.7, 0.9]))]
    if k == 2:
        lo = [draw(st.integers(0, 5)) for _ in range(ndim)]
        hi = [a + draw(st.integers(1, 3)) for a in lo]
        return ["box", lo, hi]
    if k == 3:
        return ["single", [draw(st.integers(0, 8)) for _ in range(ndim)]]
    return ["stripe", draw(st.integers(0, 3)), draw(st.integers(0, 8))]


@st.composite
def vdims_strategy(draw, nvdim, default_ok=True):
    if nvdim == 1:
        return None
    if default_ok and draw(st.integers(0, 2)) == 0:
        return None
    pool = draw(st.sampled_from(VDIM_POOLS))
    perm = draw(st.permutations(range(4)))
    if nvdim > 4:
        # many-component fields (tensors, time series of components): the pool labels with a running number
        return [f"{pool[perm[i % 4]]}_{i // 4}" for i in range(nvdim)]
    return [pool[i] for i in perm[:nvdim]]


def nvdim_strategy():
    """1-4 components mostly, now and then a many-component field"""
    return st.sampled_from([1, 1, 2, 2, 3, 3, 3, 4, 4, 5, 6, 9])


def default_vdims(nvdim):
    if nvdim == 1:
        return None
    if nvdim <= 3:
        return ["x", "y", "z"][:nvdim]
    return [f"v{i}" for i in range(nvdim)]


@st.composite
def probe_spec(draw, n, kinds=("c", "v", "f")):
    """Per-axis probe description relative to the lattice (see Lattice.point)."""
    out = []
    for nd in n:
        k = draw(st.sampled_from(kinds))
        if k == "c":
            out.append(["c", draw(st.integers(0, nd - 1))])
        elif k == "v":
            out.append(["v", draw(st.integers(0, nd))])
        elif k == "f":
            # mostly mid-cell fractions, sometimes a point 0.05 % ... 0.1 % of a cell away from a face (far outside
            # every comparison tolerance, which is 1e-12 relative by default and at most 1e-9)
            out.append(["f", draw(st.integers(0, nd - 1)),
                        draw(st.one_of(st.integers(1, 19).map(lambda q: q / 20), st.integers(1, 19).map(lambda q: q / 20),
                                       st.sampled_from([0.0005, 0.9995, 0.001, 0.999])))])
        elif k == "o":
            out.append(["o", draw(st.integers(0, 1)), draw(st.sampled_from([0.05, 0.3, 1.0, 2.5, 40.0]))])
    return out


def shuffled_mapping(mapping, seed):
    """the same vdim_mapping with its keys inserted in another order (a dict may list the labels in any order)"""
    items = list(mapping.items())
    np.random.default_rng(int(seed) % (2**32)).shuffle(items)
    return dict(items)


def nd_kw(**kw):
    """keyword arguments with the documented defaults left out (k=1, inplace=False, reference_point=None), so that
    the defaults themselves are exercised: `f.rotate90(a, b)` is one quarter turn returning a new object"""
    out = {}
    for key, v in kw.items():
        if key == "k" and type(v) is int and v == 1:
            continue
        if key == "inplace" and v is False:
            continue
        if key == "reference_point" and v is None:
            continue
        out[key] = v
    return out


def path_arg(path, seed):
    """a file name as str or as pathlib.Path (both documented)"""
    import pathlib

    return pathlib.Path(path) if int(seed) % 2 else str(path)

"""History independence ("aged == fresh"): a differential oracle shared by all properties.

Every listed property quantifies over *all* fields / meshes / regions - including objects that reached their
present state through earlier reads (which may fill caches) and in-place writes (array, validity, norm, labels,
units, boundary conditions, subregions, translate / scale / rotate90 with inplace=True).  The main sub-properties
decide the property on freshly constructed objects.  This module extends each of them to objects with a history:

    aged  = build(state_0); read observables; mutate in place; read; mutate; ...       (a generated script)
    fresh = build(primary state of aged, read through the public getters)
    for every observable O the property speaks about:  O(aged) == O(fresh)

Primary state = region corners, n, dims, units, tolerance factor, bc, subregions, array, validity, labels,
mapping, unit.  Both objects run the same code on bit-identical primary state, so their observables agree (to
1e-10 relative: memory layout may differ after an in-place rotation and change the summation order) unless the
library remembers something from the history - a stale cache, a derived attribute that one mutation path does
not refresh, or memory shared with another object.  Together with the fresh-object checks this decides the
property for the aged object as well.

The observables are grouped per property (OBS["Cxx"]) and registered as sub-property "aged" of that property.
"""
from __future__ import annotations

import copy
import os
import tempfile

import numpy as np
from hypothesis import strategies as st

from pbt import gen
from pbt.core import Reject, Sub, Violation, add_evaluations, tag

RULE_AGED = ("aged: a generated script of reads and in-place writes is applied to a field, a fresh field is built "
             "from the public primary state, and every observable of the property must agree between the two")

# --------------------------------------------------------------------------- generation

CFG = {
    # ndim range, admissible nvdim (None = 1..3), need complete mapping
    "C01": dict(ndim=(1, 3)), "C02": dict(ndim=(1, 3)), "C03": dict(ndim=(1, 3)), "C04": dict(ndim=(1, 3)),
    "C05": dict(ndim=(1, 3), nvdim="ndim-or-1"), "C06": dict(ndim=(1, 3)), "C07": dict(ndim=(1, 3)),
    "C08": dict(ndim=(1, 3)), "C09": dict(ndim=3, real=True, no_units=True), "C10": dict(ndim=(1, 3)), "C11": dict(ndim=(1, 3)),
    "C12": dict(ndim=(2, 3), nvdim="ndim-or-1"), "C13": dict(ndim=(1, 3)), "C14": dict(ndim=(1, 3), subs=True),
    "C15": dict(ndim=(1, 3), real=True), "C16": dict(ndim=3, real=True), "C17": dict(ndim=(1, 3)),
    "C18": dict(ndim=3, nvdim="3-or-1", real=True), "C19": dict(ndim=(2, 3), nvdim="3", real=True),
    "C20": dict(ndim=2, nvdim="ndim-or-1-or-3", real=True),
}


@st.composite
def step_strategy(draw, nd, nvdim, real, has_subs=False, bystander=False):
    group = draw(st.sampled_from(["geometry", "geometry", "data", "data", "meta", "meta"]))
    if bystander:
        # writes to an object derived from the subject: values, validity, labels, mapping, unit
        kind = draw(st.sampled_from(["array-assign", "array-inplace", "update", "array-partial", "valid-assign", "valid-inplace",
                                     "valid-norm", "unit"] + (["norm-set"] if real else [])
                                    + (["vdims", "vdims", "mapping", "mapping"] if nvdim > 1 else [])))
        group = None
    # region-level writes cannot take a mesh's subregions along: generated for meshes without subregions only
    kind = kind if bystander else draw(st.sampled_from({
        "geometry": ["translate", "scale", "rot", "rot"] + ([] if has_subs else ["region-translate", "region-scale",
                                                                                  "region-scale"]),
        "data": ["array-assign", "array-inplace", "update", "array-partial", "valid-assign", "valid-inplace",
                 "valid-norm"] + (["norm-set"] if real else []),
        "meta": ["subregions", "unit", "bc"] + ([] if has_subs else ["units", "tol"]) + (["vdims", "mapping"] if nvdim > 1 else [])
                + ([] if has_subs or nvdim > 1 else ["dims", "dims"]),
    }[group]))
    warm = draw(st.integers(0, 2)) > 0  # read the observables before this write (2/3 of the steps)
    if kind in ("array-assign", "array-inplace", "update", "array-partial"):
        return [kind, warm, draw(st.integers(0, 2**31))]
    if kind in ("valid-assign", "valid-inplace"):
        return [kind, warm, draw(gen.mask_spec(nd))]
    if kind == "valid-norm":
        return [kind, warm]
    if kind == "norm-set":
        return [kind, warm, draw(st.sampled_from([1, 3.5, 0.25, 800.0]))]
    if kind in ("translate", "region-translate"):
        return [kind, warm, [draw(st.sampled_from([0, 1, -2, 0.5, 3.25, -7.5])) for _ in range(nd)]]
    if kind in ("scale", "region-scale"):
        if draw(st.booleans()):
            return [kind, warm, draw(st.sampled_from([0.5, 2.0, 4.0, 0.25, 1.5]))]
        return [kind, warm, [draw(st.sampled_from([0.5, 2.0, 1.0, 4.0, 0.25, 3.0])) for _ in range(nd)]]
    if kind == "rot":
        a = draw(st.integers(0, nd - 1))
        b = (a + 1 + draw(st.integers(0, max(0, nd - 2)))) % nd  # != a whenever nd >= 2
        return [kind, warm, a, b, draw(st.sampled_from([1, 2, 3, -1]))]
    if kind == "subregions":
        return [kind, warm, draw(st.integers(0, 2**31)), draw(st.integers(0, 2))]
    if kind == "units":
        return [kind, warm, [draw(st.sampled_from(gen.UNIT_POOL)) for _ in range(nd)]]
    if kind == "dims":
        return [kind, warm, draw(st.integers(0, len(gen.DIM_POOLS) - 1)), draw(st.integers(0, 23))]
    if kind == "unit":
        return [kind, warm, draw(st.sampled_from(gen.FIELD_UNITS))]
    if kind == "vdims":
        return [kind, warm, draw(st.integers(0, len(gen.VDIM_POOLS) - 1)), draw(st.integers(0, 23))]
    if kind == "bc":
        return [kind, warm, draw(st.integers(0, 7))]
    if kind == "tol":
        return [kind, warm, draw(st.sampled_from([1e-12, 1e-10, 1e-9]))]
    if kind == "mapping":
        return [kind, warm, draw(st.integers(0, 23))]
    raise AssertionError(kind)


# OVF, VTK, plots and the 3-d tools document that vector fields need component labels
NEED_LABELS = ("C09", "C16", "C18", "C19", "C20")

ORIGINS = ["fftn", "fft-roundtrip", "rot-odd", "rot-copy", "range", "box", "pad2", "resample2", "mul", "h5", "xarray",
           "plane", "ovf-bin8", "ovf-txt", "vtk-bin", "vtk-xml", "ufunc", "sub-getitem", "imag", "angle-free",
           "mesh-ops"]


def aged_case(prop):
    cfg = CFG[prop]

    @st.composite
    def strat(draw):
        g = draw(gen.geom(ndim=cfg["ndim"], nmin=1, nmax=5, exps=(-9, 0), big_offsets=False, maxcells=150, tol=False,
                          units=not cfg.get("no_units")))
        nd = len(g["n"])
        if prop in ("C18", "C19", "C16", "C09", "C20") and draw(st.integers(0, 3)) > 0:
            g["n"] = [max(2, k) for k in g["n"]]
            lat = gen.lattice_of(g)  # keep corners, recompute nothing: n only changes the cell size
        # structural choices come from one wide integer: Hypothesis correlates small draws ("derive" with
        # "nvdim = 1"), arithmetic on a wide integer does not
        mix = draw(st.integers(0, 2**40))
        mix = ((mix + 0x1234567) * 0x9E3779B97F4A7C15) % 2**64 >> 8  # small draws -> well-spread bits
        nv = cfg.get("nvdim")
        opts = {"ndim-or-1": [1, nd, nd], "3-or-1": [1, 3, 3], "3": [3], "ndim-or-1-or-3": [1, nd, 3]}.get(
            nv, [1, 1, nd, nd, 2, 3])  # scalar or fully mapped vector: rotate90 applies
        nvdim = opts[(mix // 7) % len(opts)]
        dtype = "float" if cfg.get("real") else draw(st.sampled_from(["float", "float", "complex", "int", "float32"]))
        # region-level writes (mesh.region.translate / scale / units) apply to meshes without subregions only
        want_subs = cfg.get("subs") or draw(st.booleans())
        subs = draw(gen.index_boxes(g["n"], max_boxes=2, min_boxes=1)) if want_subs else []
        hows = ["neg", "mul", "real", "conjugate", "component", "diff", "laplace", "plane", "box", "pad", "resample",
                "rot-copy", "norm", "orientation", "abs", "stack", "h5"]
        derive_how = hows[(mix // 1013) % len(hows)] if (mix // 131) % 10 < 3 else None
        script = draw(st.lists(step_strategy(nd, nvdim, dtype == "float", bool(subs), bystander=derive_how is not None),
                               min_size=1, max_size=5))
        vd = draw(gen.vdims_strategy(nvdim))
        if nvdim > 1 and (mix // 31) % 8 == 0 and prop not in NEED_LABELS:
            vd = []  # born without labels (OVF, VTK, plots and the 3-d tools document that they need them)
        return {"prop": prop, "g": g, "subs": subs, "nvdim": nvdim, "vdims": vd,
                "perm": list(draw(st.permutations(range(max(nd, nvdim))))), "dtype": dtype,
                "seed": draw(st.integers(0, 2**31)),
                "mask": ["all"] if draw(st.booleans()) else draw(gen.mask_spec(nd)),
                # the writes go to the object itself, or to an object derived from it (then the object must not change)
                "derive": derive_how,
                "origin": None if derive_how is not None or (mix // 7919) % 10 >= 3 else
                ORIGINS[(mix // 104729) % len(ORIGINS)],
                "unit": draw(st.sampled_from(gen.FIELD_UNITS)), "bc0": draw(st.integers(0, 7)),
                "script": script, "obs_seed": draw(st.integers(0, 2**31)),
                "final_warm": draw(st.booleans())}

    return strat()


# --------------------------------------------------------------------------- building and ageing


def _bc_string(code, dims):
    single = [d for d in dims if len(d) == 1 and d.islower()]
    if code == 6:
        return "neumann"
    if code == 7:
        return "dirichlet"
    return "".join(d for i, d in enumerate(single) if (code >> i) & 1)


def _data(seed, shape, dtype):
    a = gen.make_array(seed, shape, "int", "complex" if dtype == "complex" else "float")
    return a.astype(np.int64) if dtype == "int" else a


def build_initial(case):
    import discretisedfield as df

    g = case["g"]
    n = tuple(g["n"])
    nd, k = len(n), case["nvdim"]
    dims = gen.dims_of(g)
    mesh = gen.build_mesh(g, bc=_bc_string(case["bc0"], dims), subs=case["subs"])
    labels = case["vdims"] or gen.default_vdims(k)
    kw = {}
    if case["vdims"] == [] and k > 1:
        pass  # components without labels: no mapping either
    elif k > 1 and k == nd:
        # a permuted, complete mapping (the default is positional)
        perm = [p for p in case["perm"] if p < nd]
        kw["vdim_mapping"] = gen.shuffled_mapping({labels[c]: dims[perm[c]] for c in range(k)}, case["seed"])
    elif k == 3 and nd == 2:
        perm = [p for p in case["perm"] if p < 3]
        kw["vdim_mapping"] = {labels[perm[0]]: dims[0], labels[perm[1]]: dims[1], labels[perm[2]]: None}
    dt = {"complex": np.complex128, "int": np.int64, "float32": np.float32}.get(case["dtype"])
    # "all valid" is given the way most users give it: not at all (valid=True), so that "no mask so far" shortcuts
    # are exercised before a mask is written in place
    valid = True if case["mask"] == ["all"] else gen.make_mask(case["mask"], n)
    return df.Field(mesh, nvdim=k, value=_data(case["seed"], (*n, k), case["dtype"]), vdims=case["vdims"], dtype=dt,
                    unit=case["unit"], valid=valid, **kw)


def apply_step(f, step, case):
    """apply one in-place write; returns a tag, or None when the step does not apply to the present state (skipped)"""
    import discretisedfield as df

    kind = step[0]
    n = tuple(int(i) for i in f.mesh.n)
    nd, k = len(n), f.nvdim
    dims = list(f.mesh.region.dims)
    if kind == "array-assign":
        f.array = _data(step[2], (*n, k), case["dtype"])
    elif kind == "array-inplace":
        way = step[2] % 4
        if way == 0:
            f.array[...] = _data(step[2], (*n, k), case["dtype"])
        elif way == 1:
            np.add(f.array, 1, out=f.array)
        elif way == 2:
            try:
                np.multiply(f, 2, out=f)  # through Field.__array_ufunc__
            except Exception:  # noqa: BLE001 - not supported for this field: skip the step
                return None
        else:
            f.array[(0,) * len(n)] = 7
    elif kind == "update":
        f.update_field_values(_data(step[2], (*n, k), case["dtype"]))
    elif kind == "array-partial":
        new = _data(step[2], (*n, k), case["dtype"])
        sl = tuple(slice(0, max(1, m // 2)) for m in n)
        f.array[sl] = new[sl]
    elif kind == "valid-assign":
        f.valid = gen.make_mask(step[2], n)
    elif kind == "valid-inplace":
        f.valid[...] = gen.make_mask(step[2], n)
    elif kind == "valid-norm":
        f.valid = "norm"
    elif kind == "norm-set":
        if case["dtype"] != "float":
            return None
        f.norm = step[2]
    elif kind in ("translate", "region-translate"):
        cell = np.asarray(f.mesh.cell, dtype=float)
        vec = tuple(float(v * c) for v, c in zip((list(step[2]) * 4)[:nd], cell))
        if kind == "translate":
            f.mesh.translate(vec, inplace=True)
        else:
            if len(f.mesh.subregions) > 0:
                return None  # a region-level move cannot take the mesh's subregions along
            f.mesh.region.translate(vec, inplace=True)
    elif kind in ("scale", "region-scale"):
        fac = step[2] if not isinstance(step[2], list) else tuple((list(step[2]) * 4)[:nd])
        edges = np.asarray(f.mesh.region.edges, dtype=float) * np.asarray(fac, dtype=float)
        ref = max(abs(float(x)) for x in list(f.mesh.region.pmin) + list(f.mesh.region.pmax))
        u = 10.0 ** case["g"]["exp"]
        if edges.max() > 1e3 * u * 5 or edges.min() / np.max(n) < 1e-3 * u:
            return None  # growth budget (the alignment tolerance is an absolute 1e-12, DESIGN section 6)
        if kind == "scale":
            f.mesh.scale(fac, inplace=True)
        else:
            if len(f.mesh.subregions) > 0:
                return None
            f.mesh.region.scale(fac, inplace=True)
    elif kind == "rot":
        a, b = step[2] % nd, step[3] % nd
        if a == b or nd < 2:
            return None
        if k > 1:
            mp = dict(f.vdim_mapping)
            if dims[a] not in mp.values() or dims[b] not in mp.values():
                return None  # refused by the library (C12); not part of this check
        f.rotate90(dims[a], dims[b], k=step[4], inplace=True)
    elif kind == "subregions":
        if float(np.max(np.abs([f.mesh.region.pmin, f.mesh.region.pmax]))) > 100.0:
            return None  # e.g. a k-space mesh (1e6 ... 1e9 per metre): beyond the absolute 1e-12 alignment tolerance
        rng = np.random.default_rng(step[2])
        pmin = np.asarray(f.mesh.region.pmin, dtype=float)
        cell = np.asarray(f.mesh.cell, dtype=float)
        sr = {}
        for j in range(step[3]):
            lo = [int(rng.integers(0, m)) for m in n]
            hi = [int(rng.integers(l + 1, m + 1)) for l, m in zip(lo, n)]
            sr[f"new{j}"] = df.Region(p1=tuple(pmin + np.array(lo) * cell), p2=tuple(pmin + np.array(hi) * cell))
        try:
            f.mesh.subregions = sr
        except ValueError:
            return None  # rounding of the corner formula; acceptance itself is C14's subject
    elif kind == "units":
        if len(f.mesh.subregions) > 0 or CFG[case["prop"]].get("no_units"):
            return None  # region-level attribute writes do not reach the mesh's subregions (DESIGN section 6)
        f.mesh.region.units = (list(step[2]) * 4)[:nd]
    elif kind == "dims":
        # renaming the axes through the region (scalar fields on meshes without subregions: nothing else refers
        # to the axis names)
        if len(f.mesh.subregions) > 0 or k > 1:
            return None
        import itertools
        pool = gen.DIM_POOLS[step[2]]
        perm = list(itertools.permutations(range(4)))[step[3]]
        new = [pool[i] for i in perm[:nd]]
        bc = f.mesh.bc
        if bc not in ("", "neumann", "dirichlet"):
            f.mesh.bc = ""  # periodic directions are named by axis: cleared before the axes are renamed
        f.mesh.region.dims = new
    elif kind == "unit":
        f.unit = step[2]
    elif kind == "vdims":
        if k == 1:
            return None
        pool = gen.VDIM_POOLS[step[2]]
        import itertools
        perm = list(itertools.permutations(range(4)))[step[3]]
        new = [pool[i] for i in perm[:k]]
        if step[3] % 6 == 5 and case["prop"] not in NEED_LABELS:
            new = []  # the components lose their labels altogether
        f.vdims = new
    elif kind == "bc":
        f.mesh.bc = _bc_string(step[2], dims)
    elif kind == "tol":
        if len(f.mesh.subregions) > 0:
            return None
        f.mesh.region.tolerance_factor = step[2]
    elif kind == "mapping":
        if k == 1 or f.vdims is None:
            return None
        import itertools
        labels = list(f.vdims)
        if k == nd:
            perm = list(itertools.permutations(range(nd)))[step[2] % len(list(itertools.permutations(range(nd))))]
            new = {labels[c]: dims[perm[c]] for c in range(k)}
        elif k > nd:
            perm = list(itertools.permutations(range(k)))[step[2] % len(list(itertools.permutations(range(k))))]
            new = {labels[perm[c]]: (dims[c] if c < nd else None) for c in range(k)}
        else:
            return None
        if step[2] % 2 and set(f.vdim_mapping) == set(new):
            # the caller keeps ONE dictionary: it is updated and handed to the setter again (the same object)
            d = f.vdim_mapping
            d.update(new)
            f.vdim_mapping = d
        else:
            f.vdim_mapping = new
    else:
        raise AssertionError(kind)
    return kind


def primary_state(f):
    m = f.mesh
    r = m.region
    return {
        "pmin": np.array(r.pmin), "pmax": np.array(r.pmax), "n": tuple(int(i) for i in m.n), "dims": list(r.dims),
        "units": list(r.units), "tol": r.tolerance_factor, "bc": m.bc,
        "subs": [(name, np.array(s.pmin), np.array(s.pmax)) for name, s in m.subregions.items()],
        "array": np.array(f.array), "valid": np.array(f.valid), "nvdim": f.nvdim,
        "vdims": None if f.vdims is None else list(f.vdims), "mapping": dict(f.vdim_mapping), "unit": f.unit,
        # the storage type the user asked for (public attribute; None = inferred from every new value)
        "dtype": None if f.dtype is None else np.dtype(f.dtype).str,
    }


def build_fresh(s):
    import discretisedfield as df

    region = df.Region(p1=s["pmin"], p2=s["pmax"], dims=s["dims"], units=s["units"], tolerance_factor=s["tol"])
    subs = {name: df.Region(p1=a, p2=b) for name, a, b in s["subs"]}
    mesh = df.Mesh(region=region, n=s["n"], bc=s["bc"], subregions=subs)
    return df.Field(mesh, nvdim=s["nvdim"], value=s["array"].copy(),
                    vdims=[] if (s["vdims"] is None and s["nvdim"] > 1) else s["vdims"],
                    dtype=None if s["dtype"] is None else np.dtype(s["dtype"]),
                    unit=s["unit"], valid=s["valid"].copy(), vdim_mapping=dict(s["mapping"]))


def same_state(a, b):
    for key in ("pmin", "pmax", "array", "valid"):
        x, y = np.asarray(a[key]), np.asarray(b[key])
        if x.shape != y.shape or not np.array_equal(x, y, equal_nan=(x.dtype.kind in "fc")):
            return key
    for key in ("n", "dims", "units", "tol", "bc", "nvdim", "vdims", "mapping", "unit", "dtype"):
        if a[key] != b[key]:
            return key
    if [(n_, tuple(p), tuple(q)) for n_, p, q in a["subs"]] != [(n_, tuple(p), tuple(q)) for n_, p, q in b["subs"]]:
        return "subs"
    return None


# --------------------------------------------------------------------------- comparison of observables


class _Raised:
    def __init__(self, exc):
        self.type = type(exc).__name__
        self.text = str(exc)[:120]


def canon_obs(x):
    """library objects -> nested plain structures (tuples / dicts / ndarrays / scalars)"""
    import discretisedfield as df

    if isinstance(x, df.Field):
        return {"__field__": True, "mesh": canon_obs(x.mesh), "array": np.asarray(x.array), "valid": np.asarray(x.valid),
                "nvdim": x.nvdim, "vdims": None if x.vdims is None else list(x.vdims), "mapping": dict(x.vdim_mapping),
                "unit": x.unit}
    if isinstance(x, df.Mesh):
        return {"__mesh__": True, "region": canon_obs(x.region), "n": tuple(int(i) for i in x.n), "bc": x.bc,
                "subregions": {k: canon_obs(v) for k, v in x.subregions.items()}}
    if isinstance(x, df.Region):
        return {"__region__": True, "pmin": np.asarray(x.pmin), "pmax": np.asarray(x.pmax), "dims": list(x.dims),
                "units": list(x.units), "tol": x.tolerance_factor}
    if isinstance(x, dict):
        return {str(k): canon_obs(v) for k, v in x.items()}
    if isinstance(x, (list, tuple)):
        return [canon_obs(v) for v in x]
    if type(x).__name__ == "Line" and hasattr(x, "data"):
        x = x.data
    if hasattr(x, "to_numpy") and hasattr(x, "columns"):  # DataFrame
        return {"columns": [str(c) for c in x.columns], "values": x.to_numpy()}
    return x


def differ(a, b, path=""):
    """first difference between two canonical observables, or None"""
    if isinstance(a, _Raised) or isinstance(b, _Raised):
        if isinstance(a, _Raised) and isinstance(b, _Raised):
            tag(f"both-raise:{path}:{a.type}:{a.text[:60]}")
            return None if a.type == b.type else f"{path}: raises {a.type} vs {b.type}"
        r, other = (a, "fresh") if isinstance(a, _Raised) else (b, "aged")
        return f"{path}: raises {r.type}({r.text}) only on the {'aged' if other == 'fresh' else 'fresh'} object"
    if isinstance(a, dict) and isinstance(b, dict):
        if sorted(a.keys()) != sorted(b.keys()):  # insertion order is not part of any property
            return f"{path}: keys {sorted(a.keys())} vs {sorted(b.keys())}"
        for k in a:
            d = differ(a[k], b[k], f"{path}.{k}")
            if d:
                return d
        return None
    if isinstance(a, list) and isinstance(b, list):
        if len(a) != len(b):
            return f"{path}: length {len(a)} vs {len(b)}"
        for i, (x, y) in enumerate(zip(a, b)):
            d = differ(x, y, f"{path}[{i}]")
            if d:
                return d
        return None
    if isinstance(a, np.ndarray) or isinstance(b, np.ndarray) or isinstance(a, (float, complex, np.generic)):
        x, y = np.asarray(a), np.asarray(b)
        if x.shape != y.shape:
            return f"{path}: shape {x.shape} vs {y.shape}"
        if x.dtype.kind in "OUS" or y.dtype.kind in "OUS":
            return None if np.array_equal(x, y) else f"{path}: {x!r:.80} vs {y!r:.80}"
        if (x.dtype.kind == "c") != (y.dtype.kind == "c") or (x.dtype.kind == "b") != (y.dtype.kind == "b"):
            return f"{path}: dtype {x.dtype} vs {y.dtype}"
        if x.size == 0:
            return None
        if x.dtype.kind == "b":
            return None if np.array_equal(x, y) else f"{path}: Boolean arrays differ in {int((x != y).sum())} places"
        fin = np.isfinite(y)
        if not np.array_equal(np.isfinite(x), fin) or not np.array_equal(np.isnan(x), np.isnan(y)):
            return f"{path}: non-finite pattern differs"
        if not fin.any():
            return None
        scale = float(np.max(np.abs(y[fin])))
        err = float(np.max(np.abs(x[fin] - y[fin])))
        if err > 1e-10 * scale + 1e-300:
            return f"{path}: max |aged - fresh| = {err:.3g} at scale {scale:.3g}"
        return None
    return None if a == b else f"{path}: {a!r:.80} vs {b!r:.80}"


# --------------------------------------------------------------------------- observables
# each: name -> fn(field, P);  P: parameters derived from the *fresh* object and obs_seed (identical for both)


def make_params(f, seed):
    rng = np.random.default_rng(seed)
    m = f.mesh
    n = tuple(int(i) for i in m.n)
    nd = len(n)
    pmin = np.asarray(m.region.pmin, dtype=float)
    cell = np.asarray(m.cell, dtype=float)
    idx = [tuple(int(rng.integers(0, k)) for k in n) for _ in range(4)]
    fr = rng.uniform(0.1, 0.9, size=(4, nd))
    pts = [tuple(pmin + (np.array(i) + f_) * cell) for i, f_ in zip(idx, fr)]
    centres = [tuple(pmin + (np.array(i) + 0.5) * cell) for i in idx]
    d = int(rng.integers(0, nd))
    d2 = int(rng.integers(0, nd))
    lo = [int(rng.integers(0, k)) for k in n]
    hi = [int(rng.integers(l + 1, k + 1)) for l, k in zip(lo, n)]
    return {"idx": idx, "pts": pts, "centres": centres, "d": d, "d2": d2, "lo": lo, "hi": hi, "rng_seed": int(seed),
            "newn": tuple(int(rng.integers(1, 6)) for _ in n), "k": int(rng.integers(1, 4)),
            "pair": tuple(int(x) for x in rng.permutation(nd)[:2]) if nd >= 2 else None,
            "angle": float(rng.uniform(0.2, 1.3)), "axis": "xyz"[int(rng.integers(0, 3))],
            "vec": tuple(float(v) for v in rng.integers(-3, 4, size=nd) * cell),
            "fac": float(rng.choice([0.5, 2.0, 1.5]))}


def _box_region(f, P):
    import discretisedfield as df

    pmin = np.asarray(f.mesh.region.pmin, dtype=float)
    cell = np.asarray(f.mesh.cell, dtype=float)
    return df.Region(p1=tuple(pmin + (np.array(P["lo"]) + 0.25) * cell), p2=tuple(pmin + (np.array(P["hi"]) - 0.25) * cell))


def _dims(f):
    return list(f.mesh.region.dims)


def _tmp_roundtrip(f, ext, **kw):
    import discretisedfield as df

    with tempfile.TemporaryDirectory(prefix="verif-aged-") as td:
        path = os.path.join(td, "f." + ext)
        f.to_file(path, **kw)
        raw = open(path, "rb").read()
        g = df.Field.from_file(path)
        return g, raw


def _mesh_obs(f, P):
    m = f.mesh
    return {"cell": lambda: np.asarray(m.cell), "len": lambda: len(m), "n": lambda: np.asarray(m.n), "dV": lambda: m.dV,
            "indices": lambda: [tuple(i) for i, _ in zip(m.indices, range(40))],
            "iter": lambda: [np.asarray(p) for p, _ in zip(m, range(40))],
            "i2p": lambda: [np.asarray(m.index2point(i)) for i in P["idx"]],
            "p2i": lambda: [tuple(m.point2index(p)) for p in P["pts"] + P["centres"]],
            "cells": lambda: [np.asarray(c) for c in m.cells], "vertices": lambda: [np.asarray(v) for v in m.vertices],
            "coordinate_field": lambda: m.coordinate_field(), "contains": lambda: [p in m.region for p in P["pts"]],
            "edges": lambda: np.asarray(m.region.edges), "centre": lambda: np.asarray(m.region.center)}


def _c02(f, P):
    out = {"sample": lambda: [np.asarray(f(p)) for p in P["pts"]],
           "iter": lambda: [np.asarray(v) for v, _ in zip(f, range(30))]}
    if f.vdims:
        out["components"] = lambda: [getattr(f, lab) for lab in f.vdims]
    if "r" not in _dims(f):
        out["line"] = lambda: f.line(P["pts"][0], P["pts"][1], n=5)
    # the object's mesh as the *target* of every kind of value specification
    import discretisedfield as df
    m = f.mesh
    nd = m.region.ndim

    def from_field():
        src_mesh = df.Mesh(region=copy.deepcopy(m.region), n=tuple(int(3 * k) for k in m.n))
        src = df.Field(src_mesh, nvdim=nd, value=lambda p: [float(x) * (i + 1) for i, x in enumerate(p)])
        return df.Field(m, nvdim=nd, value=src).array

    out["from-fn"] = lambda: df.Field(m, nvdim=nd, value=lambda p: [float(x) for x in p]).array
    out["from-field"] = from_field
    out["from-const"] = lambda: df.Field(m, nvdim=2, value=(1.5, -2)).array
    out["cells"] = lambda: [np.asarray(c) for c in m.cells]
    if m.subregions:
        names = sorted(m.subregions)
        out["from-dict"] = lambda: df.Field(m, nvdim=1, value={**{k: i + 1.0 for i, k in enumerate(names)},
                                                              "default": -1.0}).array
    return out


def _c03(f, P):
    out = {"neg": lambda: -f, "abs": lambda: abs(f), "add": lambda: f + f, "mul": lambda: f * 2.5,
           "rmul": lambda: 3 * f, "sub": lambda: 1 - f, "div": lambda: f / 4, "sq": lambda: f * f,
           "conj": lambda: f.conjugate, "real": lambda: f.real, "imag": lambda: f.imag}
    if f.nvdim > 1:
        out["dot"] = lambda: f.dot(f)
        out["stack"] = lambda: getattr(f, f.vdims[0]) << getattr(f, f.vdims[-1])
    if f.nvdim == 3:
        out["cross"] = lambda: f.cross(f + 1)
    if f.array.dtype.kind != "c":
        out["sin"] = lambda: np.sin(f)
        out["pow"] = lambda: f**2
    if f.array.dtype.kind == "f":
        out["angle"] = lambda: f.angle(f + 1)
        out["angle-reflected"] = lambda: (f + 1).angle(f)
        out["norm"] = lambda: f.norm
    return out


def _c04(f, P):
    d = _dims(f)[P["d"]]
    return {"d1": lambda: f.diff(d), "d2": lambda: f.diff(d, order=2), "d1u": lambda: f.diff(d, restrict2valid=False)}


def _c05(f, P):
    out = {"laplace": lambda: f.laplace}
    if f.nvdim == 1:
        out["grad"] = lambda: f.grad
    if f.nvdim == f.mesh.region.ndim and f.nvdim > 1:
        out["div"] = lambda: f.div
    if f.nvdim == 3 and f.mesh.region.ndim == 3:
        out["curl"] = lambda: f.curl
    return out


def _c06(f, P):
    d = _dims(f)[P["d"]]
    return {"total": lambda: f.integrate(), "dir": lambda: f.integrate(d),
            "cum": lambda: f.integrate(d, cumulative=True), "mean": lambda: f.mean(), "mean-dir": lambda: f.mean(d),
            "dV": lambda: f.mesh.dV}


def _range(f, P):
    pmin = np.asarray(f.mesh.region.pmin, dtype=float)
    cell = np.asarray(f.mesh.cell, dtype=float)
    a = float(pmin[P["d"]] + (P["lo"][P["d"]] + 0.3) * cell[P["d"]])
    b = float(pmin[P["d"]] + (P["hi"][P["d"]] - 0.3) * cell[P["d"]])
    return a, b


def _c07(f, P):
    dims = _dims(f)
    d = dims[P["d"]]
    m = f.mesh
    a, b = _range(f, P)
    out = {"range": lambda: f.sel(**{d: (a, b)}), "region": lambda: f[_box_region(f, P)],
           "slices": lambda: [(s.start, s.stop) for s in m.region2slices(_box_region(f, P))],
           "pad": lambda: f.pad({d: (1, 2)}, mode="constant"), "pad-wrap": lambda: f.pad({d: (2, 0)}, mode="wrap"),
           "resample": lambda: f.resample(P["newn"])}
    if len(dims) > 1:
        out["plane"] = lambda: f.sel(d)
        out["plane-value"] = lambda: f.sel(**{d: float(P["pts"][0][P["d"]])})
    for name in m.subregions:
        out["sub:" + name] = lambda name=name: f[name]
    return out


def _valid_of(thunk):
    return lambda: np.asarray(thunk().valid)


def _c08(f, P):
    dims = _dims(f)
    d = dims[P["d"]]
    ops = {"neg": lambda: -f, "norm": lambda: f.norm, "diff": lambda: f.diff(d), "add": lambda: f + f,
           "real": lambda: f.real, "pad": lambda: f.pad({d: (1, 1)}, mode="edge"),
           "resample": lambda: f.resample(P["newn"]), "h5": lambda: _tmp_roundtrip(f, "h5")[0]}
    if f.array.dtype.kind == "f":
        ops["orientation"] = lambda: f.orientation
    if f.vdims:
        ops["component"] = lambda: getattr(f, f.vdims[-1])
    if len(dims) >= 2:
        ops["plane"] = lambda: f.sel(d)
        k = f.nvdim
        if k == 1 or all(x in dict(f.vdim_mapping).values() for x in (dims[P["pair"][0]], dims[P["pair"][1]])):
            ops["rot"] = lambda: f.rotate90(dims[P["pair"][0]], dims[P["pair"][1]], k=P["k"])
    out = {k_: _valid_of(v) for k_, v in ops.items()}
    out["own"] = lambda: np.asarray(f.valid)
    return out


def _c08_mut(f, P):
    def setnorm():
        f.valid = "norm"
        return {"valid": np.asarray(f.valid), "values": np.asarray(f.array)}

    return {"set-norm": setnorm}


def _c09(f, P):
    out = {}
    for rep in ("bin8", "txt", "bin4"):
        out[rep] = lambda rep=rep: _tmp_roundtrip(f, "ovf", representation=rep)[0]
        if rep != "txt":
            out[rep + "-bytes"] = lambda rep=rep: np.frombuffer(_tmp_roundtrip(f, "ovf", representation=rep)[1], dtype=np.uint8)
    return out


def _c10(f, P):
    return {"h5": lambda: _tmp_roundtrip(f, "h5")[0]}


def _c11(f, P):
    out = {"fftn": lambda: f.fftn(), "kmesh": lambda: f.mesh.fftn(), "back": lambda: f.fftn().ifftn()}
    if f.array.dtype.kind != "c":
        out["rfftn"] = lambda: f.rfftn()
        out["rback"] = lambda: f.rfftn().irfftn(shape=tuple(int(i) for i in f.mesh.n))
        out["rkmesh"] = lambda: f.mesh.fftn(rfft=True)
    return out


def _c12(f, P):
    dims = _dims(f)
    a, b = dims[P["pair"][0]], dims[P["pair"][1]]
    return {"field": lambda: f.rotate90(a, b, k=P["k"]), "mesh": lambda: f.mesh.rotate90(a, b, k=P["k"]),
            "region": lambda: f.mesh.region.rotate90(a, b, k=P["k"]),
            "field-ref": lambda: f.rotate90(a, b, k=P["k"], reference_point=P["pts"][0])}


def _c13(f, P):
    m = f.mesh
    return {"mesh-translate": lambda: m.translate(P["vec"]), "region-translate": lambda: m.region.translate(P["vec"]),
            "mesh-scale": lambda: m.scale(P["fac"]),
            "region-scale": lambda: m.region.scale(P["fac"], reference_point=P["pts"][0]),
            "source-after": lambda: m,
            # the invariants themselves: cell * n == edges, array shape == (*n, nvdim), Boolean validity of shape n
            "invariants": lambda: {"cell": np.asarray(m.cell), "n": np.asarray(m.n), "edges": np.asarray(m.region.edges),
                                   "dV": m.dV, "shape": f.array.shape, "valid-shape": f.valid.shape,
                                   "valid-dtype": str(f.valid.dtype), "pmin<pmax": bool(np.all(m.region.pmin < m.region.pmax))}}


def _c13_mut(f, P):
    def chain():
        r = f.mesh.translate(P["vec"], inplace=True)
        f.mesh.scale(P["fac"], inplace=True)
        return {"mesh": f.mesh, "field": f, "returns-self": r is f.mesh}

    return {"inplace-chain": chain}


def _c14(f, P):
    import discretisedfield as df

    m = f.mesh
    dims = _dims(f)
    d = dims[P["d"]]
    cell = np.asarray(m.cell, dtype=float)
    a, b = _range(f, P)

    def json_reload():
        with tempfile.TemporaryDirectory(prefix="verif-aged-") as td:
            path = os.path.join(td, "sub.json")
            m.save_subregions(path)
            m2 = df.Mesh(region=m.region, n=m.n)
            m2.load_subregions(path)
            return dict(m2.subregions)

    out = {"subregions": lambda: dict(m.subregions), "named": lambda: {k: m[k] for k in m.subregions},
           "range": lambda: m.sel(**{d: (a, b)}), "moved": lambda: m.translate(P["vec"]),
           "scaled": lambda: m.scale(P["fac"]),
           "aligned-shifted": lambda: m.is_aligned(df.Mesh(region=m.region.translate(P["vec"]), n=m.n)),
           "aligned-half": lambda: m.is_aligned(df.Mesh(region=m.region.translate(tuple(0.5 * c for c in cell)), n=m.n)),
           "json": json_reload}
    if len(dims) > 1:
        out["plane"] = lambda: m.sel(d)
    return out


def _c15(f, P):
    return {"norm": lambda: f.norm, "orientation": lambda: f.orientation}


def _c15_mut(f, P):
    def setnorm():
        f.norm = 2.5
        return f

    def update():
        f.update_field_values(np.asarray(f.array) * 3)
        return f

    pmin = np.asarray(f.mesh.region.pmin, dtype=float)
    edges = np.asarray(f.mesh.region.edges, dtype=float)

    def setnorm_fn():
        # a norm that depends on the position: evaluated at the centres of the mesh as it is now
        f.norm = lambda p: 1.0 + float(np.sum((np.atleast_1d(np.asarray(p, dtype=float)) - pmin) / edges))
        return f

    def setvalue_fn():
        f.update_field_values(lambda p: tuple(float(np.atleast_1d(p)[0]) * (c + 1) / float(edges[0]) for c in range(f.nvdim)))
        return f

    return {"after-set": setnorm, "after-update": update, "after-set-function-of-position": setnorm_fn,
            "after-update-function-of-position": setvalue_fn}


def _c16(f, P):
    from vtkmodules.util import numpy_support as vns

    def grid():
        g = f.to_vtk()
        cd = g.GetCellData()
        return {"dims": tuple(g.GetDimensions()),
                "coords": [np.array(vns.vtk_to_numpy(c)) for c in (g.GetXCoordinates(), g.GetYCoordinates(), g.GetZCoordinates())],
                "arrays": {cd.GetArrayName(i): np.array(vns.vtk_to_numpy(cd.GetArray(i)))
                           for i in range(cd.GetNumberOfArrays())}}

    out = {"grid": grid}
    for rep in ("bin", "xml", "txt"):
        out[rep] = lambda rep=rep: _tmp_roundtrip(f, "vtk", representation=rep)[0]
    return out


def _c17(f, P):
    import discretisedfield as df

    def export():
        xa = f.to_xarray()
        return {"values": np.asarray(xa.values), "dims": list(xa.dims),
                "coords": {str(k): np.asarray(v.values) for k, v in xa.coords.items()},
                "coord-units": {str(k): v.attrs.get("units") for k, v in xa.coords.items()},
                "attrs": {k: (np.asarray(v) if isinstance(v, (np.ndarray, list, tuple)) else v)
                          for k, v in xa.attrs.items()}}

    return {"export": export, "back": lambda: df.Field.from_xarray(f.to_xarray())}


def _c18(f, P):
    import discretisedfield as df

    def rotate():
        rot = df.FieldRotator(f)
        rot.rotate("from_euler", seq=P["axis"], angles=P["angle"])
        first = rot.field
        rot.rotate("from_euler", seq="z", angles=0.4)
        second = rot.field
        rot.clear_rotation()
        return {"first": first, "second": second, "cleared": rot.field}

    return {"rotator": rotate}


def _c19(f, P):
    import discretisedfield.tools as dft

    dims = _dims(f)
    out = {}
    if len(dims) == 3:
        plane = lambda: f.sel(dims[2])  # noqa: E731
        if min(f.mesh.n) >= 2:
            out["bps"] = lambda: dft.count_bps(f, dims[P["d"]])
        out["demag"] = lambda: dft.demag_tensor(f.mesh)
    else:
        plane = lambda: f  # noqa: E731
    out["q"] = lambda: dft.topological_charge(plane())
    out["q-bl"] = lambda: dft.topological_charge(plane(), method="berg-luescher")
    out["density"] = lambda: dft.topological_charge_density(plane())
    out["angle"] = lambda: dft.neighbouring_cell_angle(f, direction=dims[P["d"]])
    return out


def _c20(f, P):
    import matplotlib.pyplot as plt
    from matplotlib.quiver import Quiver

    def plot(kind):
        fig, ax = plt.subplots()
        try:
            if kind == "mpl":
                f.mpl(ax=ax)
            else:
                getattr(f.mpl, kind)(ax=ax)
            ims = [np.ma.filled(np.ma.asarray(im.get_array(), dtype=float), np.nan) for im in ax.images]
            ext = [list(im.get_extent()) for im in ax.images]
            qs = [c for c in ax.collections if isinstance(c, Quiver)]
            return {"images": ims, "extent": ext, "xlabel": ax.get_xlabel(), "ylabel": ax.get_ylabel(),
                    "quiver": [{"X": np.asarray(q.X), "Y": np.asarray(q.Y), "U": np.ma.filled(q.U, np.nan),
                                "V": np.ma.filled(q.V, np.nan),
                                "mask": np.asarray(np.ma.getmaskarray(q.Umask) if np.ndim(q.Umask) else q.Umask)}
                               for q in qs]}
        finally:
            plt.close(fig)
            plt.close("all")

    out = {"mpl": lambda: plot("mpl"), "lightness": lambda: plot("lightness")}
    if f.nvdim == 1:
        out["scalar"] = lambda: plot("scalar")
        out["contour"] = lambda: plot("contour")
    else:
        out["vector"] = lambda: plot("vector")
    return out


# prop -> (read-only observables, mutating observables evaluated last)
OBS = {
    "C01": (_mesh_obs, None), "C02": (_c02, None), "C03": (_c03, None), "C04": (_c04, None), "C05": (_c05, None),
    "C06": (_c06, None), "C07": (_c07, None), "C08": (_c08, _c08_mut), "C09": (_c09, None), "C10": (_c10, None),
    "C11": (_c11, None), "C12": (_c12, None), "C13": (_c13, _c13_mut), "C14": (_c14, None), "C15": (_c15, _c15_mut),
    "C16": (_c16, None), "C17": (_c17, None), "C18": (_c18, None), "C19": (_c19, None), "C20": (_c20, None),
}


# --------------------------------------------------------------------------- the check


# observables that must succeed on every object of the generated domain, whatever its history or origin (an
# exception raised by both the aged and the fresh object is otherwise only recorded)
MUST_SUCCEED = {
    "C01": None, "C06": None, "C13": None,  # None = all of the property's observables
    "C02": ["sample", "iter", "components", "from-fn", "from-field", "from-const", "cells", "from-dict"], "C03": ["neg", "abs", "add", "mul", "rmul", "sub", "div", "sq", "conj", "real", "imag"],
    "C04": ["d1", "d2", "d1u"], "C07": ["range", "region", "slices", "pad", "pad-wrap", "resample", "plane", "plane-value"],
    "C08": ["own", "neg", "norm", "diff", "add", "real", "pad", "resample", "h5"], "C10": ["h5"],
    "C11": ["fftn", "kmesh", "back"], "C15": ["norm"], "C17": ["export", "back"],
    "C16": ["grid", "bin", "xml", "txt"], "C09": ["bin8", "bin4", "txt"],
}


def observe(fn, f, P):
    """-> {name: canonical result | _Raised}; every item evaluated on its own"""
    try:
        items = fn(f, P)
    except Exception as exc:  # noqa: BLE001
        return {"<setup>": _Raised(exc)}
    out = {}
    for name, thunk in items.items():
        try:
            out[name] = canon_obs(thunk())
        except Exception as exc:  # noqa: BLE001 - compared between the two objects, never swallowed one-sidedly
            out[name] = _Raised(exc)
    return out


def _warm(obs, f, seed):
    P = make_params(f, seed)
    observe(obs[0], f, P)


BYSTANDER_STEPS = ("array-assign", "array-inplace", "update", "array-partial", "valid-assign", "valid-inplace", "valid-norm",
                   "norm-set", "unit", "vdims", "mapping")


def derive(f, how, case):
    """an object derived from f by an operation that returns a new field"""
    dims = _dims(f)
    rng = np.random.default_rng(case["obs_seed"])
    d = dims[int(rng.integers(0, len(dims)))]
    if how == "neg":
        return -f
    if how == "mul":
        return 2 * f
    if how == "abs":
        return abs(f)
    if how == "real":
        return f.real
    if how == "conjugate":
        return f.conjugate
    if how == "component":
        return getattr(f, f.vdims[0]) if f.vdims else None
    if how == "diff":
        return f.diff(d)
    if how == "laplace":
        return f.laplace
    if how == "plane":
        return f.sel(d) if len(dims) > 1 else None
    if how == "box":
        return f[f.mesh.region]
    if how == "pad":
        return f.pad({d: (0, 0)}, mode="constant")
    if how == "resample":
        return f.resample(tuple(int(i) for i in f.mesh.n))
    if how == "rot-copy":
        if len(dims) < 2 or (f.nvdim > 1 and not all(x in dict(f.vdim_mapping).values() for x in dims[:2])):
            return None
        return f.rotate90(dims[0], dims[1], k=4)
    if how == "norm":
        return f.norm
    if how == "orientation":
        return f.orientation if f.array.dtype.kind == "f" else None
    if how == "stack":
        return (getattr(f, f.vdims[0]) << getattr(f, f.vdims[-1])) if f.vdims else None
    if how == "h5":
        return _tmp_roundtrip(f, "h5")[0]
    if how == "fftn":
        return f.fftn()
    if how == "fft-roundtrip":
        return f.fftn().ifftn()
    if how == "rot-odd":
        if len(dims) < 2 or (f.nvdim > 1 and not all(x in dict(f.vdim_mapping).values() for x in dims[:2])):
            return None
        return f.rotate90(dims[0], dims[1], k=1)
    if how == "range":
        m = f.mesh
        lo = float(m.region.pmin[0]) + 0.25 * float(m.cell[0])
        hi = float(m.region.pmax[0]) - 0.25 * float(m.cell[0])
        return f.sel(**{dims[0]: (lo, hi)}) if hi > lo else None
    if how == "pad2":
        return f.pad({d: (1, 2)}, mode="edge")
    if how == "resample2":
        return f.resample(tuple(max(1, int(i) // 2 + 1) for i in f.mesh.n))
    if how == "xarray":
        import discretisedfield as df

        return df.Field.from_xarray(f.to_xarray())
    if how in ("ovf-bin8", "ovf-txt", "vtk-bin", "vtk-xml"):
        if f.mesh.region.ndim != 3 or f.array.dtype.kind == "c":
            return None
        if f.nvdim > 1 and f.vdims is None:
            return None  # both writers need component labels (VTK says so, OVF fails on them)
        if how.startswith("ovf") and len(set(f.mesh.region.units)) != 1:
            return None  # documented: OVF carries one unit for all directions
        ext, rep = {"ovf-bin8": ("ovf", "bin8"), "ovf-txt": ("omf", "txt"), "vtk-bin": ("vtk", "bin"),
                    "vtk-xml": ("vtk", "xml")}[how]
        return _tmp_roundtrip(f, ext, representation=rep)[0]
    if how == "ufunc":
        return np.add(f, f) if f.array.dtype.kind != "i" else np.negative(f)
    if how == "sub-getitem":
        names = sorted(f.mesh.subregions)
        return f[names[int(rng.integers(0, len(names)))]] if names else None
    if how == "imag":
        return f.imag
    if how == "angle-free":  # a field built by the library from a function of position
        import discretisedfield as df

        return df.Field(f.mesh, nvdim=f.nvdim, value=lambda p: [float(sum(p)) * (i + 1) for i in range(f.nvdim)],
                        vdims=f.vdims, unit=f.unit, valid=f.valid.copy(), vdim_mapping=dict(f.vdim_mapping), dtype=f.array.dtype)
    if how == "mesh-ops":  # the mesh itself comes out of out-of-place mesh operations
        import discretisedfield as df

        m = f.mesh
        m2 = m.translate([0.0] * m.region.ndim).scale(1.0)
        return df.Field(m2, nvdim=f.nvdim, value=f.array.copy(), vdims=f.vdims, unit=f.unit, valid=f.valid.copy(),
                        vdim_mapping=dict(f.vdim_mapping), dtype=f.array.dtype)
    raise AssertionError(how)


def check_bystander(case):
    """in-place writes to a derived object (values, validity, norm, labels, mapping, unit) never change the object
    it was derived from: its primary state is bit-identical afterwards and its observables equal a fresh object's"""
    prop = case["prop"]
    obs = OBS[prop]
    subject = build_initial(case)
    if any(step[1] for step in case["script"]):
        _warm(obs, subject, case["obs_seed"])
    s0 = primary_state(subject)
    d = derive(subject, case["derive"], case)
    if d is None:
        raise Reject()
    tag("derive:" + case["derive"])
    applied = 0
    for step in case["script"]:
        if step[0] not in BYSTANDER_STEPS:
            continue
        if step[0] == "norm-set" and d.array.dtype.kind != "f":
            continue
        if d.nvdim != subject.nvdim and step[0] in ("array-assign", "array-inplace", "update", "array-partial", "vdims", "mapping"):
            # written with data of the derived object's own shape
            if step[0] in ("vdims", "mapping"):
                continue
        try:
            t = apply_step(d, step, dict(case, dtype={"f": "float", "c": "complex", "i": "int"}.get(d.array.dtype.kind, "float")))
        except (ValueError, TypeError):
            continue  # the write itself is not the subject here
        if t is not None:
            applied += 1
            tag("bystander-step:" + t)
    if applied == 0:
        raise Reject()
    key = same_state(primary_state(subject), s0)
    if key is not None:
        raise Violation(f"bystander-changed:{key}", f"writing {[s_[0] for s_ in case['script']]} to an object derived by "
                                                    f"'{case['derive']}' changed '{key}' of the object it was derived from")
    fresh = build_fresh(s0)
    if same_state(primary_state(fresh), s0) is not None:
        raise Reject()
    P = make_params(fresh, case["obs_seed"])
    a = observe(obs[0], subject, P)
    b = observe(obs[0], fresh, P)
    for name in a:
        add_evaluations(1)
        dd = differ(a[name], b.get(name), name)
        if dd:
            raise Violation(f"bystander-differs:{dd.split(':')[0][:70]}",
                            f"after writes to an object derived by '{case['derive']}', observable '{name}' of the "
                            f"source differs from a fresh object - {dd}")


FILE_ORIGINS = {"h5": ("h5", {}), "ovf-bin8": ("ovf", {"representation": "bin8"}), "ovf-txt": ("omf", {"representation": "txt"}),
                "vtk-bin": ("vtk", {"representation": "bin"}), "vtk-xml": ("vtk", {"representation": "xml"})}


def check_twin_reads(case, f):
    """two reads of one file return independent objects: in-place writes to the first (values, validity, mesh moves,
    subregions, names) change neither the second nor what a later read returns"""
    import discretisedfield as df

    ext, kw = FILE_ORIGINS[case["origin"]]
    if ext != "h5" and (f.mesh.region.ndim != 3 or f.array.dtype.kind == "c" or (f.nvdim > 1 and f.vdims is None)):
        return
    if ext in ("ovf", "omf") and len(set(f.mesh.region.units)) != 1:
        return
    with tempfile.TemporaryDirectory(prefix="verif-twin-") as td:
        path = os.path.join(td, "f." + ext)
        f.to_file(path, **kw)
        g1 = df.Field.from_file(path)
        g2 = df.Field.from_file(path)
        s2 = primary_state(g2)
        c1 = dict(case, dtype={"f": "float", "c": "complex", "i": "int"}.get(g1.array.dtype.kind, "float"))
        applied = 0
        for step in case["script"]:
            if apply_step(g1, step, c1) is not None:
                applied += 1
        if not applied:
            return
        k = same_state(primary_state(g2), s2)
        if k:
            raise Violation(f"reads-share-state:{k}", f"writing {[s_[0] for s_ in case['script']]} to the field returned by one "
                                                      f"read of a .{ext} file changed '{k}' of the field returned by another read")
        g3 = df.Field.from_file(path)
        k = same_state(primary_state(g3), s2)
        if k:
            raise Violation(f"read-depends-on-earlier-read:{k}", f"after writing {[s_[0] for s_ in case['script']]} to a field "
                                                                 f"read from a .{ext} file, reading the untouched file again "
                                                                 f"returns another '{k}'")
        tag("twin-reads:" + ext)


def check_aged(case):
    if case.get("derive"):
        return check_bystander(case)
    prop = case["prop"]
    obs = OBS[prop]
    aged = build_initial(case)
    if case.get("origin") in FILE_ORIGINS:
        check_twin_reads(case, aged)
    if case.get("origin"):
        # the object under test is itself the result of a library operation (a transform, a rotated / padded /
        # resampled / sliced copy, a reload): it behaves like a fresh object with the same public state
        aged = derive(aged, case["origin"], case)
        if aged is None:
            raise Reject()
        if CFG[prop].get("ndim") in (2, 3) and aged.mesh.region.ndim != CFG[prop]["ndim"]:
            raise Reject()
        tag("origin:" + case["origin"])
        case = dict(case, dtype={"f": "float", "c": "complex", "i": "int"}.get(aged.array.dtype.kind, "float"))
    applied = 0
    for step in case["script"]:
        if step[1]:  # warm: read every observable of the property on the present state (results discarded)
            _warm(obs, aged, case["obs_seed"])
        t = apply_step(aged, step, case)
        if t is not None:
            applied += 1
            tag("step:" + t)
    if applied == 0 and not case.get("origin"):
        raise Reject()
    if case["final_warm"]:
        _warm(obs, aged, case["obs_seed"])
    s = primary_state(aged)
    try:
        fresh = build_fresh(s)
    except ValueError:
        raise Reject()  # e.g. subregions no longer within the absolute alignment tolerance after many steps
    key = same_state(primary_state(fresh), s)
    if key is not None:
        raise Reject()  # the constructor normalises this part of the state: not comparable
    P = make_params(fresh, case["obs_seed"])
    hist = [s_[0] for s_ in case["script"]]

    def compare(fn):
        a = observe(fn, aged, P)
        b = observe(fn, fresh, P)
        if list(a) != list(b):
            raise Violation("aged-differs:observable-set", f"{list(a)} vs {list(b)}")
        must = MUST_SUCCEED.get(prop, [])
        real_only = prop in ("C09", "C16") and aged.array.dtype.kind == "c"  # OVF and VTK do not carry complex values
        for name in a:
            add_evaluations(1)
            if isinstance(b[name], _Raised) and (must is None or name in must) and not real_only \
                    and fn is obs[0] and name != "<setup>":
                raise Violation(f"observable-raises:{name}:{b[name].type}",
                                f"'{name}' raises {b[name].type}({b[name].text}) on an object with history {hist} / origin "
                                f"{case.get('origin')} and on the same state built afresh")
            d = differ(a[name], b[name], name)
            if d:
                raise Violation(f"aged-differs:{d.split(':')[0][:70]}",
                                f"observable '{name}' of an object with history {hist} differs from the same state "
                                f"built afresh - {d}")

    compare(obs[0])
    # reading observables never changes the primary state (of either object)
    k1 = same_state(primary_state(aged), s)
    k2 = same_state(primary_state(fresh), s)
    if k1 or k2:
        raise Violation(f"observation-mutates:{k1 or k2}", f"reading the observables changed '{k1 or k2}' of the object")
    if obs[1] is not None:
        compare(obs[1])
    tag(f"applied={min(applied, 4)}")


def nontrivial(case):
    kinds = {s[0] for s in case["script"]}
    return any(s[1] for s in case["script"]) and len(case["script"]) >= 1 and bool(kinds)


def sub(prop, quick=120, thorough=None):
    return Sub("aged", check_aged, aged_case(prop), nontrivial=nontrivial, quick=quick,
               thorough=thorough if thorough is not None else quick * 8, rule=RULE_AGED)

#!/venv/bin/python
"""Entry point:  run.py <Cxx> [quick|thorough] [--replay file] [--only sub,...]"""
import os
import sys

if os.environ.get("PYTHONHASHSEED") != "0":
    os.environ["PYTHONHASHSEED"] = "0"
    os.execv(sys.executable, [sys.executable] + sys.argv)

sys.path.insert(0, os.path.dirname(os.path.dirname(os.path.abspath(__file__))))
os.environ.setdefault("MPLBACKEND", "Agg")
os.environ.setdefault("OMP_NUM_THREADS", "1")
os.environ.setdefault("OPENBLAS_NUM_THREADS", "1")

import warnings  # noqa: E402

warnings.simplefilter("ignore")

from pbt import core  # noqa: E402

if __name__ == "__main__":
    sys.exit(core.main())

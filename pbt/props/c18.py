"""C18 - arbitrary rotations rotate the vectors and resample the positions consistently."""
import numpy as np
from hypothesis import strategies as st

from pbt import gen
from pbt.core import Reject, Sub, Violation, require, tag

RULE = (
    "model-based histories (Hypothesis-generated lists of 1-4 rotate()/clear_rotation() calls) on a FieldRotator over "
    "scalar or 3-vector fields (uniform, linear, random) on 3-d meshes (n 2..6, anisotropic cells, offsets, scales "
    "1e-9..1e3, permuted component-to-axis mapping); every rotation is drawn as axis-angle / Euler angles / vector "
    "alignment and handed over as quaternion, matrix, rotation vector, Euler angles or align_vector, with default or "
    "explicit target n; model: accumulated rotation matrix built independently (Rodrigues / elementary rotations); "
    "non-trivial = a rotation about a non-coordinate axis by a non-multiple of 90 degrees, or >= 2 rotations"
)
ASSUMPTIONS = [
    "values asserted where the back-rotated centre is >= 1 cell inside (closed forms) or >= 1e-6 cell outside (zero); the "
    "band in between is not asserted",
    "rotation matrices are built without scipy (Rodrigues formula, elementary rotations)",
]


def rodrigues(axis, angle):
    a = np.asarray(axis, dtype=float)
    a = a / np.linalg.norm(a)
    K = np.array([[0, -a[2], a[1]], [a[2], 0, -a[0]], [-a[1], a[0], 0]])
    return np.eye(3) + np.sin(angle) * K + (1 - np.cos(angle)) * (K @ K)


def elementary(ax, angle):
    return rodrigues({"x": (1, 0, 0), "y": (0, 1, 0), "z": (0, 0, 1)}[ax.lower()], angle)


def step_matrix(step):
    kind = step["kind"]
    if kind == "axis-angle":
        return rodrigues(step["axis"], np.deg2rad(step["deg"]))
    if kind == "euler":
        seq, angs = step["seq"], [np.deg2rad(a) for a in step["angles"]]
        M = np.eye(3)
        if seq.islower():  # extrinsic: rotations about the fixed axes, first one first
            for ax, a in zip(seq, angs):
                M = elementary(ax, a) @ M
        else:  # intrinsic
            for ax, a in zip(seq, angs):
                M = M @ elementary(ax, a)
        return M
    if kind == "align":
        i, f = np.array(step["initial"], float), np.array(step["final"], float)
        axis = np.cross(i, f)
        ang = np.arccos(np.clip(np.dot(i, f) / np.linalg.norm(i) / np.linalg.norm(f), -1, 1))
        return rodrigues(axis, ang)
    raise KeyError(kind)


def call_rotate(rot, step, n):
    kind, form = step["kind"], step["form"]
    kw = {} if n is None else {"n": tuple(int(i) for i in n)}
    if kind == "axis-angle":
        ax = np.array(step["axis"], float)
        ax /= np.linalg.norm(ax)
        th = np.deg2rad(step["deg"])
        if form == "quat":
            rot.rotate("from_quat", [*(ax * np.sin(th / 2)), np.cos(th / 2)], **kw)
        elif form == "matrix":
            rot.rotate("from_matrix", rodrigues(ax, th), **kw)
        else:
            rot.rotate("from_rotvec", ax * th, **kw)
    elif kind == "euler":
        rot.rotate("from_euler", step["seq"], step["angles"] if len(step["angles"]) > 1 else step["angles"][0], degrees=True, **kw)
    else:
        rot.rotate("align_vector", initial=step["initial"], final=step["final"], **kw)


AXES = [(0, 0, 1), (1, 0, 0), (0, 1, 0), (1, 1, 0), (1, 1, 1), (1, -2, 3), (0, 2, -1), (-1, 0, 2)]


@st.composite
def rot_step(draw):
    if draw(st.integers(0, 7)) == 0:
        return {"kind": "clear"}
    kind = draw(st.sampled_from(["axis-angle", "axis-angle", "euler", "align"]))
    s = {"kind": kind, "n": None if draw(st.booleans()) else [draw(st.integers(2, 9)) for _ in range(3)]}
    if kind == "axis-angle":
        s["axis"] = list(draw(st.sampled_from(AXES)))
        s["deg"] = draw(st.sampled_from([90, 180, -90, 30, 45, 17, -120, 200, 61, 1, 359]))
        s["form"] = draw(st.sampled_from(["quat", "matrix", "rotvec"]))
    elif kind == "euler":
        seq = draw(st.sampled_from(["z", "x", "y", "xyz", "zyx", "XYZ", "ZYX", "zxz", "ZXZ", "yx", "XZ"]))
        s["seq"] = seq
        s["angles"] = [draw(st.sampled_from([90, -90, 30, 45, 10, 135, -60, 77])) for _ in seq]
        s["form"] = "euler"
    else:
        i = list(draw(st.sampled_from(AXES)))
        f = list(draw(st.sampled_from(AXES)))
        if abs(np.dot(i, f)) / np.linalg.norm(i) / np.linalg.norm(f) > 0.999:
            f = [i[1] + 1, -i[0], i[2] + 2]
        s["initial"], s["final"] = i, f
        s["form"] = "align"
    return s


@st.composite
def rotator_case(draw):
    g = draw(gen.geom(ndim=3, nmin=draw(st.sampled_from([2, 3, 4])), nmax=6, exps=(-9, 3), big_offsets=False, maxcells=220, tol=False))
    kind = draw(st.sampled_from(["uniform-vector", "uniform-vector", "linear-scalar", "random-vector", "random-scalar",
                                 "uniform-scalar"]))
    return {"g": g, "kind": kind, "v": [draw(st.integers(-5, 5)) for _ in range(3)], "a": [draw(st.integers(-3, 3)) for _ in range(3)],
            "b": draw(st.integers(-4, 4)), "perm": list(draw(st.permutations(range(3)))), "vdims": draw(gen.vdims_strategy(3)),
            "seed": draw(st.integers(0, 2**31)), "steps": draw(st.lists(rot_step(), min_size=1, max_size=4)),
            "int_dtype": draw(st.booleans())}


def build_field(case):
    import discretisedfield as df

    g = case["g"]
    n = tuple(g["n"])
    mesh = gen.build_mesh(g)
    dims = gen.dims_of(g)
    lat = gen.lattice_of(g)
    kind = case["kind"]
    c = np.array([float((lat.pmin[d] + lat.pmax[d]) / 2) for d in range(3)])
    cell = np.array([float(x) for x in lat.cell])
    if kind.endswith("scalar"):
        if kind == "linear-scalar":
            grids = np.meshgrid(*[np.array([float(lat.vertex(d, i) + lat.cell[d] / 2) for i in range(n[d])]) for d in range(3)], indexing="ij")
            arr = case["b"] + sum(case["a"][d] * (grids[d] - c[d]) / cell[d] for d in range(3))
            arr = arr[..., np.newaxis]
        elif kind == "uniform-scalar":
            arr = np.full((*n, 1), float(case["b"] + 0.5))
        else:
            arr = gen.make_array(case["seed"], (*n, 1), "int")
        if case.get("int_dtype") and kind == "random-scalar":
            arr = arr.astype(np.int64)
            return mesh, df.Field(mesh, nvdim=1, value=np.array(arr, copy=True), dtype=np.int64), arr, None
        if case.get("int_dtype") and kind == "linear-scalar" and all(float(a).is_integer() for a in case["a"]):
            # integer-valued linear scalar stored with an integer dtype (values at the cell centres are half-integers
            # times integers: scale by 2 to stay integral)
            arr2 = np.round(arr * 2).astype(np.int64)
            if np.array_equal(arr2, arr * 2):
                case["_scale2"] = True
                return mesh, df.Field(mesh, nvdim=1, value=arr2, dtype=np.int64), arr2.astype(float), None
        # a scalar field may carry a name for its single component, with or without a mapping: it rotates all the same
        skw = [{}, {"vdims": ["T"]}, {"vdims": ["rho"], "vdim_mapping": {"rho": "z"}}][case["seed"] % 3]
        return mesh, df.Field(mesh, nvdim=1, value=np.array(arr, copy=True), **skw), arr, None
    labels = case["vdims"] or ["x", "y", "z"]
    # component c is mapped to axis perm[c]
    mapping = {labels[i]: dims[case["perm"][i]] for i in range(3)}
    if kind == "uniform-vector":
        # v is given in spatial order; component i holds the spatial component of its axis
        arr = np.broadcast_to(np.array([float(case["v"][case["perm"][i]]) for i in range(3)]), (*n, 3)).copy()
    else:
        arr = gen.make_array(case["seed"], (*n, 3), "int")
    kw = {"vdims": list(case["vdims"])} if case["vdims"] else {}
    mapping = gen.shuffled_mapping(mapping, case["seed"])
    return mesh, df.Field(mesh, nvdim=3, value=np.array(arr, copy=True), vdim_mapping=mapping, **kw), arr, case["perm"]


def nontrivial(case):
    steps = [s for s in case["steps"] if s["kind"] != "clear"]
    oblique = any(s["kind"] == "axis-angle" and sum(1 for x in s["axis"] if x) > 1 and s["deg"] % 90 for s in steps)
    return oblique or len(steps) >= 2


def check_rotator(case):
    import discretisedfield as df

    g = case["g"]
    lat = gen.lattice_of(g)
    mesh, f, arr, perm = build_field(case)
    snap = (f.array.tobytes(), f.mesh.region.pmin.tobytes(), f.mesh.region.pmax.tobytes())
    rot = df.FieldRotator(f)
    pmin = np.array([float(x) for x in lat.pmin])
    pmax = np.array([float(x) for x in lat.pmax])
    cell = np.array([float(x) for x in lat.cell])
    edges = pmax - pmin
    c = (pmin + pmax) / 2
    M = np.eye(3)
    tag(case["kind"])
    for si, step in enumerate(case["steps"]):
        if step["kind"] == "clear":
            rot.clear_rotation()
            M = np.eye(3)
            require(rot.field == f and rot.field.mesh == mesh and np.array_equal(rot.field.array, arr), "clear-restores-original")
            continue
        Ms = step_matrix(step)
        M = Ms @ M  # later rotations after earlier ones, always from the original field
        try:
            call_rotate(rot, step, step["n"])
        except ValueError as e:
            if step["n"] is None and "must be positive" in str(e):
                raise Reject() from None  # automatic n rounded to zero cells for a very flat region
            raise
        tag(step["form"])
        r = rot.field
        # ---- bounding box of the rotated region, same centre
        half = np.abs(M) @ edges / 2
        scale = np.max(edges)
        if np.max(np.abs(r.mesh.region.pmin - (c - half))) > 1e-9 * scale or np.max(np.abs(r.mesh.region.pmax - (c + half))) > 1e-9 * scale:
            raise Violation("bounding-box", f"step {si}: region {r.mesh.region.pmin}..{r.mesh.region.pmax}, expected "
                                            f"{c - half}..{c + half}")
        if step["n"] is not None:
            require([int(i) for i in r.mesh.n] == step["n"], "explicit-n", f"{r.mesh.n} vs {step['n']}")
        require(r.nvdim == f.nvdim, "nvdim")
        if f.nvdim == 3:
            require(list(r.vdims) == list(f.vdims) and dict(r.vdim_mapping) == dict(f.vdim_mapping), "labels-mapping")
        # ---- values
        rn = tuple(int(i) for i in r.mesh.n)
        rc = [np.array([r.mesh.region.pmin[d] + (i + 0.5) * (r.mesh.region.pmax[d] - r.mesh.region.pmin[d]) / rn[d] for i in range(rn[d])])
              for d in range(3)]
        Q = np.stack(np.meshgrid(*rc, indexing="ij"), axis=-1)  # target centres
        P = (Q - c) @ M  # back-rotated relative positions: M^T (q - c)
        rel = P + c
        inside = np.all((rel >= pmin + cell) & (rel <= pmax - cell), axis=-1)
        outside = np.any((rel < pmin - 1e-6 * cell) | (rel > pmax + 1e-6 * cell), axis=-1)
        vals = r.array
        if outside.any() and np.any(vals[outside] != 0):
            i = tuple(np.argwhere(outside & np.any(vals != 0, axis=-1))[0])
            raise Violation("outside-not-zero", f"step {si}: target cell {i} back-rotates to {rel[i]} outside the original "
                                                f"region [{pmin}, {pmax}] but holds {vals[i]}")
        tag("cells-inside" if inside.any() else "no-cell-inside")
        if case["kind"] == "uniform-vector":
            vs = np.array(case["v"], float)
            ws = M @ vs  # rotated vector, spatial order
            want = np.array([ws[perm[i]] for i in range(3)])
            tol = 1e-9 * max(1.0, np.max(np.abs(vs)))
            if inside.any() and np.max(np.abs(vals[inside] - want)) > tol:
                i = tuple(np.argwhere(inside & (np.max(np.abs(vals - want), axis=-1) > tol))[0])
                raise Violation("uniform-vector", f"step {si}: cell {i} holds {vals[i]}, expected Q v = {want} "
                                                  f"(component order of the field, mapping perm {perm})")
        elif case["kind"] == "uniform-scalar":
            if inside.any() and np.max(np.abs(vals[inside] - (case["b"] + 0.5))) > 1e-9 * 5:
                raise Violation("uniform-scalar", f"step {si}")
        elif case["kind"] == "linear-scalar":
            want = (case["b"] + (P / cell) @ np.array(case["a"], float)) * (2 if case.get("_scale2") else 1)
            tol = 1e-9 * (abs(case["b"]) + 10 * max(1, max(abs(x) for x in case["a"])))
            if inside.any() and np.max(np.abs(vals[..., 0][inside] - want[inside])) > tol:
                i = tuple(np.argwhere(inside & (np.abs(vals[..., 0] - want) > tol))[0])
                raise Violation("linear-scalar", f"step {si}: cell {i} holds {vals[i]}, linear field gives {want[i]}")
        # ---- the same accumulated rotation given at once to a fresh rotator (composition, parametrisation)
        rn_list = [int(i) for i in r.mesh.n]
        fresh = df.FieldRotator(f)
        fresh.rotate("from_matrix", M, n=tuple(rn_list))
        if not (np.allclose(fresh.field.mesh.region.pmin, r.mesh.region.pmin, rtol=0, atol=1e-9 * scale)
                and np.allclose(fresh.field.array, vals, rtol=1e-9, atol=1e-9 * max(1.0, float(np.max(np.abs(arr)))))):
            raise Violation("composition", f"step {si}: sequence of rotations differs from one rotator given their product")
        require((f.array.tobytes(), f.mesh.region.pmin.tobytes(), f.mesh.region.pmax.tobytes()) == snap, "original-modified")


@st.composite
def quarter_case(draw):
    n = [draw(st.integers(2, 5)) for _ in range(3)]
    e = draw(st.integers(-9, 2))
    c = draw(st.sampled_from([1.0, 0.3, 2.5])) * 10.0**e
    off = [draw(st.integers(-5, 5)) for _ in range(3)]
    p1 = [o * c for o in off]
    p2 = [p1[d] + n[d] * c for d in range(3)]
    return {"g": {"p1": p1, "p2": p2, "n": n, "dims": None, "units": None, "tol": None, "exp": e},
            "axis": draw(st.integers(0, 2)), "k": draw(st.sampled_from([1, 2, 3, -1])), "vector": draw(st.booleans()),
            "seed": draw(st.integers(0, 2**31)), "perm": list(draw(st.permutations(range(3))))}


def check_quarter(case):
    """for cubic cells a quarter turn about a coordinate axis coincides with Field.rotate90"""
    import discretisedfield as df

    g = case["g"]
    n = tuple(g["n"])
    mesh = gen.build_mesh(g)
    dims = ["x", "y", "z"]
    k = 3 if case["vector"] else 1
    arr = gen.make_array(case["seed"], (*n, k), "int")
    kw = {}
    if k == 3:
        kw["vdim_mapping"] = gen.shuffled_mapping({["x", "y", "z"][i]: dims[case["perm"][i]] for i in range(3)}, case["seed"])
    f = df.Field(mesh, nvdim=k, value=np.array(arr, copy=True), **kw)
    ax = case["axis"]
    a, b = [(1, 2), (2, 0), (0, 1)][ax]  # right-handed: rotation about ax turns a towards b
    ref = f.rotate90(dims[a], dims[b], k=case["k"])
    rot = df.FieldRotator(f)
    vec = [0, 0, 0]
    vec[ax] = 1
    rot.rotate("from_rotvec", np.array(vec) * case["k"] * np.pi / 2, n=tuple(int(i) for i in ref.mesh.n))
    r = rot.field
    scale = float(np.max(mesh.region.edges))
    if not (np.allclose(r.mesh.region.pmin, ref.mesh.region.pmin, rtol=0, atol=1e-9 * scale)
            and np.allclose(r.mesh.region.pmax, ref.mesh.region.pmax, rtol=0, atol=1e-9 * scale)):
        raise Violation("quarter-turn-region", f"{r.mesh.region.pmin}..{r.mesh.region.pmax} vs rotate90 {ref.mesh.region.pmin}..{ref.mesh.region.pmax}")
    if not np.allclose(r.array, ref.array, rtol=1e-9, atol=1e-8 * max(1.0, float(np.max(np.abs(arr))))):
        raise Violation("quarter-turn-values", f"axis {dims[ax]} k={case['k']}: FieldRotator differs from Field.rotate90")


@st.composite
def refuse_case(draw):
    return {"kind": draw(st.sampled_from(["nvdim2", "nvdim4", "ndim2", "ndim1", "ndim4", "empty-mapping", "partial-mapping",
                                          "nonaxis-mapping", "unknown-method"])), "seed": draw(st.integers(0, 100))}


def check_refuse(case):
    import discretisedfield as df

    kind = case["kind"]
    tag(kind)
    m3 = df.Mesh(p1=(0, 0, 0), p2=(4, 3, 2), n=(4, 3, 2))
    try:
        if kind == "nvdim2":
            df.FieldRotator(df.Field(m3, nvdim=2, value=(1, 2)))
        elif kind == "nvdim4":
            df.FieldRotator(df.Field(m3, nvdim=4, value=(1, 2, 3, 4)))
        elif kind == "ndim2":
            df.FieldRotator(df.Field(df.Mesh(p1=(0, 0), p2=(4, 3), n=(4, 3)), nvdim=3, value=(1, 2, 3)))
        elif kind == "ndim1":
            df.FieldRotator(df.Field(df.Mesh(p1=0, p2=4, n=4), nvdim=1, value=1))
        elif kind == "ndim4":
            df.FieldRotator(df.Field(df.Mesh(p1=(0, 0, 0, 0), p2=(2, 2, 2, 2), n=(2, 2, 2, 2)), nvdim=1, value=1))
        elif kind == "empty-mapping":
            df.FieldRotator(df.Field(m3, nvdim=3, value=(1, 2, 3), vdim_mapping={}))
        elif kind == "partial-mapping":
            df.FieldRotator(df.Field(m3, nvdim=3, value=(1, 2, 3), vdim_mapping={"x": "x", "y": None, "z": "z"}))
        elif kind == "nonaxis-mapping":
            df.FieldRotator(df.Field(m3, nvdim=3, value=(1, 2, 3), vdim_mapping={"x": "x", "y": "q", "z": "z"}))
        else:
            df.FieldRotator(df.Field(m3, nvdim=3, value=(1, 2, 3))).rotate("from_nothing", [1, 0, 0])
    except (ValueError, TypeError, KeyError, AttributeError):
        return
    raise Violation(f"not-refused:{kind}")


SUBS = [
    Sub("rotator", check_rotator, rotator_case(), nontrivial=nontrivial, quick=250, thorough=2000),
    Sub("quarter-turn", check_quarter, quarter_case(), quick=150, thorough=1000),
    Sub("refuse", check_refuse, enum=lambda tier: ({"kind": k, "seed": 0} for k in
        ["nvdim2", "nvdim4", "ndim2", "ndim1", "ndim4", "empty-mapping", "partial-mapping", "nonaxis-mapping", "unknown-method"])),
]


# objects with a history (reads that may fill caches, in-place writes): observables equal those of a fresh object
from pbt import aged as _aged  # noqa: E402

SUBS.append(_aged.sub("C18", quick=60))
ASSUMPTIONS = list(ASSUMPTIONS) + ["aged sub-property: library results are a function of the public primary state "
                                   "(corners, n, names, units, bc, subregions, array, validity, labels, mapping, unit)"]

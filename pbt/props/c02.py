"""C02 - a field holds exactly the value its specification assigns to every cell."""
from fractions import Fraction as F
import itertools

import numpy as np
from hypothesis import strategies as st

from pbt import gen
from pbt.core import Reject, Sub, Violation, require, tag

RULE = (
    "Hypothesis-generated meshes (1-4 dims, 0-3 possibly overlapping subregions) x nvdim 1-4 x dtype x "
    "value specification (constant, vector, per-cell array, scalar array, polynomial callable, dict over "
    "subregions +- default, field on a covering mesh of other resolution) x construction/update/array-"
    "setter, compared with a reference evaluator at the exact cell centres; sampling / component / "
    "iteration / line checked against the stored array; non-trivial = more than one cell and a non-constant "
    "specification (or a rejection case); distinct = SHA-1 of the case"
)
ASSUMPTIONS = [
    "reference evaluator written from the property text; callables are smooth polynomials compared at rtol 1e-12",
    "field-source and sampling oracles are set-valued when a centre/probe lies on a cell face",
    "dict specifications are generated for float/complex dtypes (the NaN sentinel cannot exist in int arrays)",
]

DTYPES = {None: None, "float": np.float64, "int": np.int64, "complex": np.complex128, "bool": np.bool_,
          "inferred-complex": None}


# --------------------------------------------------------------------------- generators


@st.composite
def mesh_with_subs(draw, ndim=(1, 4), nmax=5, subs=True, maxcells=400):
    # subregions need the absolute 1e-12 alignment tolerance to be meaningful: scales 1e-9..1
    g = draw(gen.geom(ndim=ndim, nmax=nmax, exps=(-9, 1), big_offsets=False, maxcells=maxcells))
    sb = draw(gen.index_boxes(g["n"], 3)) if subs else []
    return g, sb


def poly_strategy(nd, nvdim):
    return st.lists(st.integers(-3, 3), min_size=nvdim * (1 + 2 * nd), max_size=nvdim * (1 + 2 * nd))


@st.composite
def simple_subspec(draw, nd, nvdim, dtype, allow_callable=True):
    k = draw(st.integers(0, 2 if allow_callable else 1))
    if k <= 1:
        if dtype == "complex":
            v = [[draw(st.integers(-5, 5)), draw(st.integers(-5, 5))] for _ in range(nvdim)]
            return ["constc", v]
        v = [draw(st.integers(-9, 9)) if draw(st.booleans()) else draw(st.integers(-90, 90)) / 8 for _ in range(nvdim)]
        return ["const", v]
    return ["callable", draw(poly_strategy(nd, nvdim)), draw(st.sampled_from(["tuple", "list", "array"]))]


@st.composite
def spec_strategy(draw, g, subs, nvdim, dtype, force_kind=None):
    nd = len(g["n"])
    kinds = ["const", "array", "callable", "field"]
    if nvdim == 1:
        kinds.append("scalar-array")
    if subs and dtype in (None, "float", "complex"):
        kinds += ["dict", "dict"]
    if dtype == "bool":
        kinds = ["const", "array"]
    kind = draw(st.sampled_from(kinds))
    if force_kind in kinds:
        kind = force_kind
    if kind == "const":
        if dtype == "bool":
            return ["const", [draw(st.booleans()) for _ in range(nvdim)]]
        if dtype == "complex":
            return ["constc", [[draw(st.integers(-5, 5)), draw(st.integers(-5, 5))] for _ in range(nvdim)]]
        if nvdim > 1 and draw(st.integers(0, 5)) == 0:
            return ["const", [0] * nvdim if draw(st.booleans()) else [0.0] * nvdim]
        if dtype == "int":
            return ["const", [draw(st.integers(-9, 9)) for _ in range(nvdim)]]
        return ["const", [draw(st.integers(-9, 9)) if draw(st.booleans()) else draw(st.integers(-90, 90)) / 8
                          for _ in range(nvdim)]]
    if kind in ("array", "scalar-array"):
        return [kind, draw(st.integers(0, 2**31))]
    if kind == "callable":
        ret = draw(st.sampled_from(["tuple", "list", "array"] + (["scalar"] if nvdim == 1 else [])))
        return ["callable", draw(poly_strategy(nd, nvdim)), ret]
    if kind == "field":
        lo = [draw(st.sampled_from([0, 0, 0.5, 1, 2.3])) for _ in range(nd)]
        hi = [draw(st.sampled_from([0, 0, 0.5, 1, 2.3])) for _ in range(nd)]
        # coincidences a shortcut could key on: equal cell counts on a larger region, equal region with
        # other counts, whole multiples / divisors of the target's counts
        mode = draw(st.sampled_from(["free", "free", "same-n", "same-n", "multiple", "mixed"]))
        n2 = []
        for d in range(nd):
            m = mode if mode != "mixed" else draw(st.sampled_from(["free", "same-n", "multiple"]))
            if m == "same-n":
                n2.append(g["n"][d])
            elif m == "multiple":
                n2.append(max(1, min(12, g["n"][d] * draw(st.sampled_from([2, 3])) if draw(st.booleans())
                                     else g["n"][d] // draw(st.sampled_from([2, 3])))))
            else:
                n2.append(draw(st.integers(1, 7)))
        return ["field", lo, hi, n2, draw(st.integers(0, 2**31))]
    # dict
    names = [s[0] for s in subs]
    chosen = [n for n in names if draw(st.integers(0, 3)) > 0]
    entries = {n: draw(simple_subspec(nd, nvdim, dtype)) for n in chosen}
    default = draw(st.one_of(st.none(), simple_subspec(nd, nvdim, dtype)))
    return ["dict", entries, default]


@st.composite
def value_case(draw):
    g, subs = draw(mesh_with_subs())
    nvdim = draw(gen.nvdim_strategy())
    # (storage type, kind of specification) pairs through one hashed integer: Hypothesis correlates two small draws
    mix = ((draw(st.integers(0, 2**40)) + 0xC02) * 0x9E3779B97F4A7C15) % 2**64 >> 9
    dtypes = [None, None, "float", "int", "complex", "bool", "inferred-complex", "inferred-complex"]
    dtype = dtypes[mix % len(dtypes)]
    force = [None, None, "const", "array", "callable", "field", "field", "dict"][(mix // 8) % 8]
    spec = draw(spec_strategy(g, subs, nvdim, "complex" if dtype == "inferred-complex" else dtype, force_kind=force))
    if dtype == "inferred-complex" and spec[0] in ("callable", "dict"):
        dtype = "complex"  # callables and dicts need an explicit complex dtype (documented)
    if spec[0] in ("callable",) and dtype in ("bool", "int"):
        dtype = None  # polynomial values at cell centres are not integers
    return {"g": g, "subs": subs, "nvdim": nvdim, "vdims": draw(gen.vdims_strategy(nvdim)), "dtype": dtype,
            "spec": spec, "via": ["init", "update", "array", "update"][(mix // 64) % 4]}


# --------------------------------------------------------------------------- reference evaluator


def poly_fn(coeffs, lat, nvdim, ret, dtype=None):
    nd = lat.ndim
    pmin = [float(x) for x in lat.pmin]
    cell = [float(x) for x in lat.cell]
    per = 1 + 2 * nd

    def f(point):
        point = np.atleast_1d(np.asarray(point, dtype=float))
        t = [(point[d] - pmin[d]) / cell[d] for d in range(nd)]
        out = []
        for c in range(nvdim):
            k = coeffs[c * per:(c + 1) * per]
            v = k[0] + sum(k[1 + d] * t[d] for d in range(nd)) + sum(k[1 + nd + d] * t[d] ** 2 for d in range(nd))
            if dtype == "complex":
                v = v + 1j * (k[0] - sum(k[1 + d] * t[d] for d in range(nd)))
            out.append(v)
        if ret == "scalar":
            return out[0]
        if ret == "tuple":
            return tuple(out)
        if ret == "list":
            return list(out)
        return np.array(out)

    return f


def to_value(subspec, lat, nvdim, dtype):
    """library-facing value of a const / callable subspec"""
    if subspec[0] == "const":
        v = subspec[1]
        if nvdim > 1 and all(x == 0 for x in v) and not any(isinstance(x, bool) for x in v):
            return 0 if isinstance(v[0], int) else 0.0  # the plain number zero stands for the zero vector
        return v[0] if nvdim == 1 else tuple(v)
    if subspec[0] == "constc":
        v = [complex(a, b) for a, b in subspec[1]]
        return v[0] if nvdim == 1 else tuple(v)
    if subspec[0] == "callable":
        return poly_fn(subspec[1], lat, nvdim, subspec[2], dtype)
    raise ValueError(subspec[0])


def eval_subspec(subspec, lat, nvdim, dtype, idx):
    if subspec[0] == "const":
        return np.array(subspec[1])
    if subspec[0] == "constc":
        return np.array([complex(a, b) for a, b in subspec[1]])
    c = [float(x) for x in lat.centre(idx)]
    return np.asarray(poly_fn(subspec[1], lat, nvdim, "array", dtype)(c))


def source_geometry(g, spec):
    lat = gen.lattice_of(g)
    _, lo, hi, n2, seed = spec
    p1 = [float(lat.pmin[d] - F(lo[d]) * lat.cell[d]) for d in range(lat.ndim)]
    p2 = [float(lat.pmax[d] + F(hi[d]) * lat.cell[d]) for d in range(lat.ndim)]
    return {"p1": p1, "p2": p2, "n": n2, "dims": g.get("dims"), "units": g.get("units"), "tol": g.get("tol")}


def build_spec(case, mesh):
    """-> (library value, expected)  expected: ('array', ndarray) or ('set', fn(idx)->list of arrays)"""
    import discretisedfield as df

    g, nvdim, dtype, spec = case["g"], case["nvdim"], case["dtype"], case["spec"]
    if dtype == "inferred-complex":
        dtype = "complex"
    lat = gen.lattice_of(g)
    n = tuple(lat.n)
    kind = spec[0]
    if kind in ("const", "constc"):
        val = to_value(spec, lat, nvdim, dtype)
        exp = np.broadcast_to(eval_subspec(spec, lat, nvdim, dtype, None), (*n, nvdim))
        return val, ("array", exp)
    if kind == "array":
        a = gen.make_array(spec[1], (*n, nvdim), "int", "complex" if dtype == "complex" else "float")
        if dtype == "bool":
            a = a > 0
        elif dtype == "int":
            a = a.astype(np.int64)
        exp = a.copy()
        # the same numbers in another legitimate representation (memory layout, container, element type)
        layout = (int(spec[1]) // 3) % 8
        if layout == 1:
            a = np.asfortranarray(a)
        elif layout == 2:
            big = np.zeros((*(2 * k for k in n), nvdim), dtype=a.dtype)
            big[tuple(slice(None, None, 2) for _ in n)] = a
            a = big[tuple(slice(None, None, 2) for _ in n)]  # a strided view
        elif layout == 3:
            a = a.copy()
            a.flags.writeable = False
        elif layout == 4:
            a = a.tolist()
        elif layout == 5 and dtype in (None, "float"):
            a = a.astype(np.float32)  # small integers: exact
        elif layout == 6 and dtype in ("float", "complex"):
            a = np.real(a).astype(np.int16) if dtype == "float" else a
            exp = np.asarray(a).astype(exp.dtype) if dtype == "float" else exp
        from pbt.core import tag as _tag
        _tag(f"array-layout={layout}")
        return a, ("array", exp)
    if kind == "scalar-array":
        a = gen.make_array(spec[1], n, "int", "complex" if dtype == "complex" else "float")
        if dtype == "int":
            a = a.astype(np.int64)
        return a, ("array", a.reshape(*n, 1).copy())
    if kind == "callable":
        fn = poly_fn(spec[1], lat, nvdim, spec[2], dtype)
        exp = np.empty((*n, nvdim), dtype=complex if dtype == "complex" else float)
        for idx in lat.indices():
            exp[idx] = eval_subspec(spec, lat, nvdim, dtype, idx)
        return fn, ("array", exp)
    if kind == "field":
        g2 = source_geometry(g, spec)
        lat2 = gen.lattice_of(g2)
        src_arr = gen.make_array(spec[4], (*lat2.n, nvdim), "int", "complex" if dtype == "complex" else "float")
        src = df.Field(gen.build_mesh(g2), nvdim=nvdim, value=src_arr,
                       dtype=np.complex128 if dtype == "complex" else None)

        def options(idx):
            c = lat.centre(idx)
            adm = [lat2.admissible_axis(d, float(c[d]), lat2.cell[d] * F(1, 10**8) + lat2.fp_tol(d))
                   for d in range(lat.ndim)]
            return [src_arr[j] for j in itertools.product(*adm)]

        return src, ("set", options)
    if kind == "dict":
        entries, default = spec[1], spec[2]
        val = {k: to_value(v, lat, nvdim, dtype) for k, v in entries.items()}
        if default is not None:
            val["default"] = to_value(default, lat, nvdim, dtype)
        exp = np.empty((*n, nvdim), dtype=complex if dtype == "complex" else float)
        uncovered = False
        for idx in lat.indices():
            chosen = None
            for name, lo, hi in case["subs"]:  # mesh.subregions order
                if name in entries and all(lo[d] <= idx[d] < hi[d] for d in range(lat.ndim)):
                    chosen = entries[name]
                    break
            if chosen is None:
                chosen = default
            if chosen is None:
                uncovered = True
                exp[idx] = 0
            else:
                exp[idx] = eval_subspec(chosen, lat, nvdim, dtype, idx)
        if uncovered:
            return val, ("keyerror", None)
        return val, ("array", exp)
    raise ValueError(kind)


def spec_nonconstant(case):
    return case["spec"][0] not in ("const", "constc")


def nontrivial(case):
    n = case["g"]["n"]
    cells = 1
    for k in n:
        cells *= k
    return cells > 1 and (spec_nonconstant(case) or "bad" in case)


def make_field(case, mesh, val, base=None):
    import discretisedfield as df

    dt = DTYPES[case["dtype"]]
    kw = dict(nvdim=case["nvdim"], dtype=dt)
    if case.get("vdims"):
        kw["vdims"] = case["vdims"]
    via = case.get("via", "init")
    if via == "init":
        return df.Field(mesh, value=val, **kw)
    f = df.Field(mesh, value=base if base is not None else np.full((*mesh.n, case["nvdim"]), 1.5), **kw)
    if via == "update":
        f.update_field_values(val)
    else:
        f.array = val
    return f


# --------------------------------------------------------------------------- checks


def check_value(case):
    g = case["g"]
    lat = gen.lattice_of(g)
    mesh = gen.build_mesh(g, subs=case["subs"])
    nvdim, dtype, kind = case["nvdim"], case["dtype"], case["spec"][0]
    tag(f"spec={kind}")
    tag(f"dtype={dtype}")
    tag(f"via={case['via']}")
    val, (ekind, exp) = build_spec(case, mesh)
    if ekind == "keyerror":
        tag("dict-uncovered")
        try:
            f = make_field(case, mesh, val)
        except KeyError:
            return
        raise Violation("dict-uncovered-accepted", "dict without default leaves cells uncovered but was accepted")
    f = make_field(case, mesh, val)
    arr = f.array
    require(isinstance(arr, np.ndarray) and arr.shape == (*lat.n, nvdim), "array-shape",
            f"{getattr(arr, 'shape', None)} vs {(*lat.n, nvdim)}")
    if dtype == "inferred-complex":
        require(np.iscomplexobj(arr), "complex-values-lost", f"complex specification stored as {arr.dtype}")
    elif dtype is not None and kind != "field":  # a source field's dtype is carried over (not asserted)
        require(arr.dtype == DTYPES[dtype], "array-dtype", f"{arr.dtype} for dtype={dtype}")
    elif kind in ("const", "array", "scalar-array"):
        require(arr.dtype == np.float64, "array-dtype-inferred", f"{arr.dtype}")
    if ekind == "array":
        scale = max(1.0, float(np.max(np.abs(exp)))) if exp.size else 1.0
        exact = kind in ("const", "constc", "array", "scalar-array")
        ok = np.array_equal(arr, exp) if exact else np.allclose(arr, exp, rtol=1e-12, atol=1e-12 * scale)
        if not ok:
            bad = np.argwhere(~np.isclose(arr, exp, rtol=1e-12, atol=1e-12 * scale))
            i = tuple(bad[0]) if len(bad) else None
            sig = {"dict": "dict-value", "callable": "callable-value"}.get(kind, "stored-value")
            if kind == "dict" and case["spec"][2] is not None and case["spec"][2][0] == "callable":
                sig = "dict-callable-default"
            raise Violation(sig, f"{len(bad)} entries differ; first {i}: stored {arr[i] if i else None} "
                                 f"expected {exp[i] if i else None}")
    else:  # set-valued (field source)
        for idx in lat.indices():
            opts = exp(idx)
            if not any(np.array_equal(arr[idx], o) for o in opts):
                raise Violation("field-source-value", f"cell {idx}: stored {arr[idx]} not among source cells "
                                                      f"containing the centre {[o.tolist() for o in opts]}")


@st.composite
def sample_case(draw):
    g, subs = draw(mesh_with_subs(subs=False, nmax=7))
    nvdim = draw(gen.nvdim_strategy())
    probes = [draw(gen.probe_spec(g["n"], ("c", "v", "f"))) for _ in range(draw(st.integers(1, 5)))]
    return {"g": g, "nvdim": nvdim, "vdims": draw(gen.vdims_strategy(nvdim)), "seed": draw(st.integers(0, 2**31)),
            "dtype": draw(st.sampled_from([None, "int", "complex"])), "probes": probes,
            "mask": draw(gen.mask_spec(len(g["n"]))), "unit": draw(st.sampled_from(gen.FIELD_UNITS)),
            "mapping": draw(st.sampled_from(["default", "perm", "partial", "empty"])),
            "perm_seed": draw(st.integers(0, 1000)),
            "container": draw(st.sampled_from(["tuple", "list", "array", "scalar"]))}


def _field_from_seed(case, mesh, lat):
    import discretisedfield as df

    nvdim = case["nvdim"]
    dt = case["dtype"]
    arr = gen.make_array(case["seed"], (*lat.n, nvdim), "int", "complex" if dt == "complex" else "float")
    if dt == "int":
        arr = arr.astype(np.int64)
    kw = {}
    if case.get("vdims"):
        kw["vdims"] = case["vdims"]
    vd = case.get("vdims") or gen.default_vdims(nvdim)
    dims = gen.dims_of(case["g"])
    mapping = None
    if vd and case.get("mapping", "default") != "default":
        rng = np.random.default_rng(case.get("perm_seed", 0))
        if case["mapping"] == "empty":
            mapping = {}
        else:
            tgt = list(dims) + [None] * max(0, nvdim - len(dims))
            rng.shuffle(tgt)
            mapping = {v: t for v, t in zip(vd, tgt)}
            if case["mapping"] == "partial":
                mapping = {v: (t if i % 2 == 0 else None) for i, (v, t) in enumerate(mapping.items())}
        kw["vdim_mapping"] = gen.shuffled_mapping(mapping, case.get("perm_seed", 0) + 3)
    f = df.Field(mesh, nvdim=nvdim, value=np.array(arr, copy=True), dtype=DTYPES[dt], unit=case.get("unit"),
                 valid=gen.make_mask(case.get("mask", ["all"]), lat.n), **kw)
    return f, arr


def check_sample(case):
    g = case["g"]
    lat = gen.lattice_of(g)
    mesh = gen.build_mesh(g)
    f, arr = _field_from_seed(case, mesh, lat)
    conv = {"tuple": tuple, "list": list, "array": np.array, "scalar": tuple}[case["container"]]
    for spec in case["probes"]:
        p = lat.point(spec)
        tag("face" if any(s[0] == "v" for s in spec) else "interior")
        arg = p[0] if (lat.ndim == 1 and case["container"] == "scalar") else conv(p)
        got = f(arg)
        require(np.shape(got) == (case["nvdim"],), "sample-shape", f"{np.shape(got)}")
        atol, rtol = F(g["tol"] or 1e-12) * min(lat.edges), F(g["tol"] or 1e-12)
        adm = [lat.admissible_axis(d, p[d], atol + rtol * abs(F(p[d])) + lat.fp_tol(d)) for d in range(lat.ndim)]
        if not any(np.array_equal(got, arr[j]) for j in itertools.product(*adm)):
            raise Violation("sample-value", f"field({p}) = {got} is not the value of a cell containing the point "
                                            f"(admissible {adm})")


def check_component(case):
    g = case["g"]
    lat = gen.lattice_of(g)
    mesh = gen.build_mesh(g)
    f, arr = _field_from_seed(case, mesh, lat)
    nvdim = case["nvdim"]
    vd = f.vdims
    if nvdim == 1:
        require(vd is None, "scalar-vdims", f"{vd}")
        return
    expect = case.get("vdims") or gen.default_vdims(nvdim)
    require(list(vd) == list(expect), "vdims", f"{vd} vs {expect}")
    for i, lab in enumerate(expect):
        comp = getattr(f, lab)
        require(comp.nvdim == 1 and comp.array.shape == (*lat.n, 1), "component-shape", f"{comp.array.shape}")
        require(np.array_equal(comp.array[..., 0], arr[..., i]), "component-column",
                f"component {lab!r} (index {i}) does not return column {i}")
        require(comp.mesh == mesh, "component-mesh")
        require(comp.unit == f.unit, "component-unit", f"{comp.unit} vs {f.unit}")
        require(np.array_equal(comp.valid, f.valid), "component-valid")
        tgt = f.vdim_mapping.get(lab) if f.vdim_mapping else None
        if f.vdim_mapping and lab in f.vdim_mapping:
            require(comp.vdim_mapping in ({}, {lab: tgt}), "component-mapping", f"{comp.vdim_mapping}")
    require(np.array_equal(f.array, arr), "component-access-mutated")


def check_iterate(case):
    g = case["g"]
    lat = gen.lattice_of(g)
    mesh = gen.build_mesh(g)
    f, arr = _field_from_seed(case, mesh, lat)
    vals = list(f)
    ref = list(lat.indices())
    require(len(vals) == len(ref), "iter-length", f"{len(vals)} vs {len(ref)}")
    for idx, v in zip(ref, vals):
        if not np.array_equal(v, arr[idx]):
            raise Violation("iter-order", f"cell {idx}: yielded {v}, stored {arr[idx]}")


@st.composite
def line_case(draw):
    g, _ = draw(mesh_with_subs(subs=False, nmax=7))
    if g.get("dims") and "r" in g["dims"]:
        g["dims"] = None  # see DESIGN section 6: a dimension called 'r' collides with the distance column
    nvdim = draw(gen.nvdim_strategy())
    kinds = ("c", "v", "f")
    mode = draw(st.sampled_from(["corner", "corner", "free", "free", "end-on-face", "end-on-face"]))
    if mode == "corner":
        p1 = [["v", draw(st.sampled_from([0, n]))] for n in g["n"]]
        p2 = [["v", draw(st.sampled_from([0, n]))] for n in g["n"]]
    elif mode == "free":
        p1 = draw(gen.probe_spec(g["n"], kinds))
        p2 = draw(gen.probe_spec(g["n"], kinds))
    else:
        # one end point inside the region, the other with coordinates exactly on the region's lower / upper faces:
        # p1 + i*dl may miss that end by an ulp, on either side
        inner = [["f", draw(st.integers(0, n - 1)), draw(st.integers(1, 19)) / 20] for n in g["n"]]
        outer = [["v", draw(st.sampled_from([0, 0, n]))] if draw(st.integers(0, 3)) else
                 ["f", draw(st.integers(0, n - 1)), draw(st.integers(1, 19)) / 20] for n in g["n"]]
        p1, p2 = (inner, outer) if draw(st.booleans()) else (outer, inner)
    return {"g": g, "nvdim": nvdim, "vdims": draw(gen.vdims_strategy(nvdim)), "seed": draw(st.integers(0, 2**31)),
            "dtype": draw(st.sampled_from([None, "int"])), "p1": p1, "p2": p2,
            "npts": draw(st.one_of(st.integers(2, 12), st.sampled_from([100, 100, 37]))),  # 100 = the documented default
            "container": draw(st.sampled_from(["tuple", "list", "array"]))}


def check_line(case):
    g = case["g"]
    lat = gen.lattice_of(g)
    mesh = gen.build_mesh(g)
    f, arr = _field_from_seed(case, mesh, lat)
    p1, p2 = lat.point(case["p1"]), lat.point(case["p2"])
    if p1 == p2:
        raise Reject()
    n = case["npts"]
    nd, nvdim = lat.ndim, case["nvdim"]
    tag(f"ndim={nd}")
    conv = {"tuple": tuple, "list": list, "array": np.array}[case["container"]]
    try:
        line = f.line(conv(p1), conv(p2), n=n) if n != 100 else f.line(conv(p1), conv(p2))
    except IndexError as e:
        if nd == 1:
            raise Violation("line-1d", f"Field.line on a 1-d mesh raises IndexError: {e}") from None
        raise
    data = line.data
    require(line.n == n and len(data) == n, "line-count", f"{line.n}, {len(data)} rows for n={n}")
    dims = gen.dims_of(g)
    pts = np.array([[data[d].iloc[i] for d in dims] for i in range(n)], dtype=float)
    mag = [float(m) for m in lat.mag]
    tol = np.array([64 * 2.3e-16 * m for m in mag]) * 4
    require(np.all(np.abs(pts[0] - p1) <= tol), "line-first", f"{pts[0]} vs {p1}")
    require(np.all(np.abs(pts[-1] - p2) <= tol), "line-last", f"{pts[-1]} vs {p2}")
    for i in range(n):
        exact = np.array(p1) + (np.array(p2) - np.array(p1)) * (i / (n - 1))
        require(np.all(np.abs(pts[i] - exact) <= tol), "line-equidistant", f"point {i}: {pts[i]} vs {exact}")
        r = float(data["r"].iloc[i])
        dist = float(np.linalg.norm(pts[i] - pts[0]))
        require(abs(r - dist) <= 1e-12 * max(dist, np.linalg.norm(tol)), "line-distance", f"row {i}: r={r}, |p-p1|={dist}")
    vd = f.vdims
    cols = [f"v{v}" for v in vd] if vd is not None else ["v"]
    require(list(line.value_columns) == cols, "line-value-columns", f"{line.value_columns}")
    for i in range(n):
        got = np.array([data[c].iloc[i] for c in cols])
        p = pts[i]
        atol, rtol = F(g["tol"] or 1e-12) * min(lat.edges), F(g["tol"] or 1e-12)
        adm = [lat.admissible_axis(d, p[d], atol + rtol * abs(F(float(p[d]))) + 8 * lat.fp_tol(d)) for d in range(nd)]
        if not any(np.array_equal(got, arr[j]) for j in itertools.product(*adm)):
            raise Violation("line-value", f"row {i} at {p}: {got} is not the value of a cell containing the point")


@st.composite
def reject_case(draw):
    g, subs = draw(mesh_with_subs(nmax=5))
    nd = len(g["n"])
    nvdim = draw(st.integers(1, 4))
    bad = draw(st.sampled_from(["vector-length", "array-lastdim", "array-leading", "str", "none", "scalar-for-vector",
                                "dict-no-default", "field-not-covering", "callable-length", "object"]))
    c = {"g": g, "subs": subs, "nvdim": nvdim, "vdims": None, "dtype": draw(st.sampled_from([None, "float"])),
         "bad": bad, "seed": draw(st.integers(0, 2**31)), "via": draw(st.sampled_from(["init", "update", "array"])),
         "spec": ["bad"]}
    if bad == "vector-length":
        c["len"] = draw(st.integers(1, 6).filter(lambda k: k != nvdim))
    elif bad == "array-lastdim":
        c["len"] = draw(st.integers(1, 6).filter(lambda k: k != nvdim))
    elif bad == "array-leading":
        c["axis"] = draw(st.integers(0, nd - 1))
        c["extra"] = draw(st.integers(1, 3))
    elif bad == "callable-length":
        c["len"] = draw(st.integers(2, 6).filter(lambda k: k != nvdim))
    elif bad == "field-not-covering":
        c["axis"] = draw(st.integers(0, nd - 1))
        c["side"] = draw(st.integers(0, 1))
        c["short"] = draw(st.sampled_from([0.3, 1.0, 1.5]))
    return c


def check_reject(case):
    import discretisedfield as df

    g = case["g"]
    lat = gen.lattice_of(g)
    n = tuple(lat.n)
    nvdim, bad = case["nvdim"], case["bad"]
    tag(bad)
    mesh = gen.build_mesh(g, subs=case["subs"])
    base = gen.make_array(case["seed"], (*n, nvdim))
    if bad == "vector-length":
        k = case["len"]
        if nvdim == 1 and (k,) == n:
            raise Reject()
        val = tuple(float(i + 1) for i in range(k))
    elif bad == "array-lastdim":
        k = case["len"]
        if nvdim == 1 and len(n) > 0 and (*n[:-1], k) == n[1:] + (k,) and (*n, k)[-len(n):] == n:
            raise Reject()
        val = np.ones((*n, k))
        if nvdim == 1 and val.shape == n:
            raise Reject()
    elif bad == "array-leading":
        shp = list(n)
        shp[case["axis"]] += case["extra"]
        val = np.ones((*shp, nvdim))
    elif bad == "str":
        val = "abc"
    elif bad == "none":
        val = None
    elif bad == "object":
        val = object()
    elif bad == "scalar-for-vector":
        if nvdim == 1:
            raise Reject()
        # any non-zero number (the number 0 alone is the documented "all components zero")
        val = [3.0, -1, -1.0, 1, 2.5, 1e-300, 1j, np.float64(-1.0)][case["seed"] % 8]
    elif bad == "dict-no-default":
        # cover strictly less than the mesh
        covered = np.zeros(n, dtype=bool)
        for name, lo, hi in case["subs"]:
            covered[tuple(slice(a, b) for a, b in zip(lo, hi))] = True
        if not case["subs"] or covered.all():
            raise Reject()
        val = {name: (1.0 if nvdim == 1 else (1.0,) * nvdim) for name, _, _ in case["subs"]}
    elif bad == "callable-length":
        k = case["len"]
        val = lambda p: (1.0,) * k  # noqa: E731
    elif bad == "field-not-covering":
        ax, side, short = case["axis"], case["side"], case["short"]
        if short >= lat.n[ax]:
            raise Reject()
        p1 = [float(x) for x in lat.pmin]
        p2 = [float(x) for x in lat.pmax]
        if side == 0:
            p1[ax] = float(lat.pmin[ax] + F(short) * lat.cell[ax])
        else:
            p2[ax] = float(lat.pmax[ax] - F(short) * lat.cell[ax])
        val = df.Field(df.Mesh(p1=p1, p2=p2, n=(2,) * lat.ndim), nvdim=nvdim, value=1.0 if nvdim == 1 else (1.0,) * nvdim)
    via = case["via"]
    dt = DTYPES[case["dtype"]]
    if via == "init":
        try:
            f = df.Field(mesh, nvdim=nvdim, value=val, dtype=dt)
        except Exception:  # noqa: BLE001 - any rejection is fine
            return
        raise Violation(f"bad-spec-accepted:{bad}", f"Field(...) accepted {bad}: array shape {f.array.shape}")
    f = df.Field(mesh, nvdim=nvdim, value=base, dtype=dt)
    before = f.array.tobytes()
    try:
        if via == "update":
            f.update_field_values(val)
        else:
            f.array = val
    except Exception:  # noqa: BLE001
        require(f.array.tobytes() == before and f.array.shape == (*n, nvdim), "reject-changed-state",
                f"rejected {bad} but the field changed")
        return
    raise Violation(f"bad-spec-accepted:{bad}", f"{via} accepted {bad}; array shape now {f.array.shape}")


def nt_simple(case):
    n = case["g"]["n"]
    cells = 1
    for k in n:
        cells *= k
    return cells > 1


# --------------------------------------------------------------------------- two fields are two fields


@st.composite
def independent_case(draw):
    g, subs = draw(mesh_with_subs(maxcells=120))
    return {"g": g, "subs": subs, "nvdim": draw(gen.nvdim_strategy()), "seed": draw(st.integers(0, 2**31)),
            "dtype": draw(st.sampled_from(["float", "float", "complex", "int", "float32"])),
            "how": draw(st.sampled_from(["field-source", "field-source-dtype", "update-from-field", "xarray", "array-attr",
                                         "array-attr-dtype", "update-from-array-attr"])),
            "write": draw(st.sampled_from(["imul", "index", "out-ufunc", "setter-then-index"]))}


def check_independent(case):
    """a field whose values were specified through ANOTHER FIELD of the library (the field itself, its `array`
    attribute, its xarray export) holds those values as its own: writing into either of the two afterwards leaves the
    other holding exactly what its specification assigned"""
    import discretisedfield as df

    g = case["g"]
    n = tuple(g["n"])
    k = case["nvdim"]
    mesh = gen.build_mesh(g, subs=case["subs"])
    npdt = {"float": np.float64, "complex": np.complex128, "int": np.int64, "float32": np.float32}[case["dtype"]]
    arr = gen.make_array(case["seed"], (*n, k), "int", "complex" if case["dtype"] == "complex" else "float").astype(npdt)
    f = df.Field(mesh, nvdim=k, value=arr.copy(), dtype=npdt)
    how = case["how"]
    tag(how)
    if how == "field-source":
        gfield = df.Field(mesh, nvdim=k, value=f)
    elif how == "field-source-dtype":
        gfield = df.Field(mesh, nvdim=k, value=f, dtype=npdt)
    elif how == "update-from-field":
        gfield = df.Field(mesh, nvdim=k, value=np.zeros((*n, k)), dtype=npdt)
        gfield.update_field_values(f)
    elif how == "xarray":
        gfield = df.Field.from_xarray(f.to_xarray())
    elif how == "array-attr":
        gfield = df.Field(mesh, nvdim=k, value=f.array)
    elif how == "array-attr-dtype":
        gfield = df.Field(mesh, nvdim=k, value=f.array, dtype=npdt)
    else:
        gfield = df.Field(mesh, nvdim=k, value=np.zeros((*n, k)), dtype=npdt)
        gfield.update_field_values(f.array)
    require(np.array_equal(gfield.array, arr), "derived-values", f"{how}")
    if np.shares_memory(gfield.array, f.array):
        raise Violation("fields-share-memory", f"the field specified through {how} shares its array with the field it was "
                                               f"specified from")
    for target, other, who in ((gfield, f, "the new field"), (f, gfield, "the source field")):
        before = other.array.copy()
        w = case["write"]
        if w == "imul":
            target.array *= 2
        elif w == "index":
            target.array[(0,) * len(n)] = 7
        elif w == "out-ufunc":
            np.add(target.array, 1, out=target.array)
        else:
            target.array = target.array + 1
            target.array[(0,) * len(n)] = -3
        if not np.array_equal(other.array, before):
            raise Violation("write-through", f"writing ({w}) into {who} ({how}) changed the other field")
    tag("write:" + case["write"])


SUBS = [
    Sub("independent-fields", check_independent, independent_case(), nontrivial=nt_simple, quick=200, thorough=1500),
    Sub("value", check_value, value_case(), nontrivial=nontrivial, quick=700, thorough=3000),
    Sub("sample", check_sample, sample_case(), nontrivial=nt_simple, quick=500, thorough=3000),
    Sub("component", check_component, sample_case(), nontrivial=nt_simple, quick=300, thorough=1500),
    Sub("iterate", check_iterate, sample_case(), nontrivial=nt_simple, quick=200, thorough=1000),
    Sub("line", check_line, line_case(), nontrivial=nt_simple, quick=400, thorough=2500),
    Sub("reject", check_reject, reject_case(), nontrivial=nt_simple, quick=500, thorough=2500),
]


# objects with a history (reads that may fill caches, in-place writes): observables equal those of a fresh object
from pbt import aged as _aged  # noqa: E402

SUBS.append(_aged.sub("C02", quick=250))
ASSUMPTIONS = list(ASSUMPTIONS) + ["aged sub-property: library results are a function of the public primary state "
                                   "(corners, n, names, units, bc, subregions, array, validity, labels, mapping, unit)"]

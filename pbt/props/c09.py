"""C09 - OVF files round-trip fields and follow the OVF 1.0/2.0 format."""
import itertools
import os
import struct
import tempfile

import numpy as np
from hypothesis import strategies as st

from pbt import gen
from pbt.core import Reject, Sub, Violation, require, tag
from pbt.ref import ovf_ref

LEVEL = "fault_enumeration"
RULE = (
    "Hypothesis-generated 3-d fields (nvdim 1-6, identifier labels incl. underscores, unit or none, values over the "
    "full finite float64 range incl. +-0 and subnormals, regions at scales 1e-9..1e3 with offsets, int/float corners, "
    "0-2 subregions) x {bin8, bin4, txt} x extend_scalar x save_subregions x extension: round trip, independent OVF "
    "reader on the written bytes, foreign OVF 1.0/2.0 files from an independent writer (text +- trailing blanks/CRLF, "
    "bin4, bin8); fault enumeration: EVERY truncation point and EVERY single-bit flip + replacement of the check value "
    "of small binary files; non-trivial = non-uniform data on a mesh with pairwise different n (round trip) / every "
    "fault case; distinct = SHA-1 of the case"
)
ASSUMPTIONS = [
    "independent reader/writer pbt/ref/ovf_ref.py written from the OVF specification",
    "units and labels are generated without whitespace or ':' (the OVF header grammar)",
    "a truncated file that still holds the whole data block may be read (footer carries no data) but only to the original field",
]

UNITS = [None, "A/m", "T", "J/m3", "kg*m^2/s", "None_", "1"]
REPS = ["bin8", "bin4", "txt"]


@st.composite
def geom3(draw, nmax=4):
    g = draw(gen.geom(ndim=3, nmax=nmax, exps=(-9, 3), big_offsets=False, maxcells=60, names=False, aniso=True))
    u = draw(st.sampled_from([None, "m", "nm", "um"]))
    g["units"] = [u] * 3 if u else None
    g["tol"] = None
    return g


@st.composite
def field_case(draw, small=False):
    g = draw(geom3(nmax=3 if small else 4))
    if g["exp"] > 0 or g.get("stretched"):
        subs = []
    else:
        subs = draw(gen.index_boxes(g["n"], 2))
    k = draw(st.integers(1, 3 if small else 6))
    return {"g": g, "subs": subs, "k": k, "vdims": draw(gen.vdims_strategy(k)) if k <= 4 else None,
            "unit": draw(st.sampled_from(UNITS)), "vals": draw(st.sampled_from(["int", "wide", "wide"])),
            "seed": draw(st.integers(0, 2**31)), "rep": draw(st.sampled_from(REPS)),
            "extend_scalar": draw(st.booleans()), "save_subregions": draw(st.booleans()), "prelude": draw(st.booleans()),
            "nonfinite": draw(st.integers(0, 3)) == 0,
            "ext": draw(st.sampled_from([".ovf", ".omf", ".ohf"]))}


def make_values(case, shape):
    rng = np.random.default_rng(case["seed"])
    if case["vals"] == "int":
        return rng.integers(-9, 10, size=shape).astype(float)
    e = rng.integers(-300, 301, size=shape)
    a = rng.uniform(1, 10, size=shape) * 10.0**e * rng.choice([-1.0, 1.0], size=shape)
    flat = a.reshape(-1)
    special = [0.0, -0.0, 5e-324, -2.2e-308, 1.7976931348623157e308, 1e-45, 3.4e38, 1.0]
    for i, v in enumerate(special):
        if i < flat.size and rng.random() < 0.5:
            flat[int(rng.integers(0, flat.size))] = v
    if case.get("nonfinite"):
        # a field may hold NaN or infinities (masked cells, divisions): every representation has to carry them
        for v in (float("nan"), float("inf"), float("-inf"))[: max(1, min(3, flat.size))]:
            flat[int(rng.integers(0, flat.size))] = v
    return flat.reshape(shape)


def build_field(case):
    import discretisedfield as df

    g = case["g"]
    n = tuple(g["n"])
    mesh = gen.build_mesh(g, subs=case["subs"])
    arr = make_values(case, (*n, case["k"]))
    kw = {"vdims": list(case["vdims"])} if case.get("vdims") else {}
    return mesh, df.Field(mesh, nvdim=case["k"], value=np.array(arr, copy=True), unit=case["unit"], **kw), arr


def nontrivial(case):
    n = case["g"]["n"]
    return len(set(n)) == 3 and case["k"] >= 2


def expected_values(arr, rep):
    if rep == "bin4":
        with np.errstate(over="ignore"):
            return arr.astype(np.float32).astype(np.float64)
    return arr


def values_match(got, want, rep):
    if rep == "txt":
        with np.errstate(all="ignore"):
            return np.allclose(got, want, rtol=1e-9, atol=0, equal_nan=True)
    return np.array_equal(got, want, equal_nan=True)


def check_roundtrip(case):
    import discretisedfield as df

    mesh, f, arr = build_field(case)
    rep, k = case["rep"], case["k"]
    tag(rep)
    tag(f"k={k}")
    ext_scalar = case["extend_scalar"] and k == 1
    with tempfile.TemporaryDirectory() as tmp:
        path = os.path.join(tmp, "field" + case["ext"])
        if case.get("prelude") and case["save_subregions"]:
            # the file name was used before, for a field with other subregions
            old = df.Field(df.Mesh(region=mesh.region, n=mesh.n,
                                   subregions={"stale": df.Region(p1=mesh.region.pmin, p2=mesh.region.pmax)}), nvdim=1, value=1.0)
            old.to_file(path)
            if case["seed"] % 3 == 0:
                df.Field.from_file(path)  # ... and was read in this session: the next read returns the file as it is then
            tag("name-used-before")
        with np.errstate(over="ignore"):
            f.to_file(gen.path_arg(path, case["seed"]), representation=rep, extend_scalar=case["extend_scalar"],
                      save_subregions=case["save_subregions"])
        raw = open(path, "rb").read()
        if case["seed"] % 4 == 0:
            # the field returned by a read is the caller's: moving its mesh in place, renaming or dropping its subregions
            # and overwriting its values does not affect what a later read of the same file returns
            first = df.Field.from_file(path)
            first.mesh.translate(tuple(float(c) for c in first.mesh.cell), inplace=True)
            first.mesh.subregions = {}
            first.array[...] = 0
            tag("read-modify-read")
        back = df.Field.from_file(gen.path_arg(path, case["seed"] + 1))
        sidecar = os.path.exists(path + ".subregions.json")
    want = expected_values(arr, rep)
    # ---- library round trip
    require(np.array_equal(back.mesh.region.pmin, mesh.region.pmin) and np.array_equal(back.mesh.region.pmax, mesh.region.pmax),
            "roundtrip-corners", f"{back.mesh.region.pmin}..{back.mesh.region.pmax} vs {mesh.region.pmin}..{mesh.region.pmax}")
    require(np.array_equal(back.mesh.n, mesh.n), "roundtrip-n", f"{back.mesh.n} vs {mesh.n}")
    require(tuple(back.mesh.region.units) == tuple(mesh.region.units), "roundtrip-meshunit",
            f"{back.mesh.region.units} vs {mesh.region.units}")
    if ext_scalar:
        require(back.nvdim == 3, "extend-scalar-nvdim", f"{back.nvdim}")
        require(values_match(back.array[..., 0:1], want, rep) and not back.array[..., 1:].any(), "extend-scalar-values")
    else:
        require(back.nvdim == k, "roundtrip-nvdim", f"{back.nvdim} vs {k}")
        if not values_match(back.array, want, rep):
            raise Violation(f"roundtrip-values-{rep}", "values read back differ")
        if k > 1:
            if list(back.vdims or []) != list(f.vdims):
                raise Violation("roundtrip-labels", f"labels {f.vdims} come back as {back.vdims}")
    if back.unit != f.unit:
        raise Violation("roundtrip-unit", f"unit {f.unit!r} comes back as {back.unit!r}")
    # subregions through the side-car
    if case["save_subregions"] and case["subs"]:
        require(sidecar, "sidecar-missing")
        require(list(back.mesh.subregions) == [s[0] for s in case["subs"]], "sidecar-names",
                f"{list(back.mesh.subregions)}")
        for name, sr in mesh.subregions.items():
            b = back.mesh.subregions[name]
            require(np.array_equal(b.pmin, sr.pmin) and np.array_equal(b.pmax, sr.pmax), "sidecar-corners", name)
    else:
        require(not back.mesh.subregions, "unexpected-subregions", f"{list(back.mesh.subregions)}")
    # ---- independent reader on the written bytes
    try:
        r = ovf_ref.read(raw)
    except ovf_ref.OVFError as e:
        raise Violation("independent-reader-rejects", str(e)) from None
    h = r["header"]
    require(r["version"] == 2, "not-ovf2")
    require(r["n"] == tuple(int(i) for i in mesh.n), "header-nodes", f"{r['n']}")
    for i, ax in enumerate("xyz"):
        c = float(mesh.cell[i])
        lo, hi = float(mesh.region.pmin[i]), float(mesh.region.pmax[i])
        tol = 4e-16 * max(abs(lo), abs(hi), c)
        require(float(h[f"{ax}min"]) == lo and float(h[f"{ax}max"]) == hi, "header-minmax", ax)
        require(abs(float(h[f"{ax}stepsize"]) - (hi - lo) / int(mesh.n[i])) <= tol, "header-stepsize", ax)
        require(abs(float(h[f"{ax}base"]) - (lo + (hi - lo) / int(mesh.n[i]) / 2)) <= tol, "header-base",
                f"{ax}base {h[f'{ax}base']} vs {lo + c / 2}")
    require(h.get("meshtype") == "rectangular", "header-meshtype")
    require(h.get("meshunit") == mesh.region.units[0], "header-meshunit")
    vd = 3 if ext_scalar else k
    require(r["valuedim"] == vd, "header-valuedim", f"{r['valuedim']}")
    require(len(h.get("valuelabels", "").split()) == vd, "header-valuelabels-count", h.get("valuelabels"))
    require(len(h.get("valueunits", "").split()) in (1, vd), "header-valueunits-count", h.get("valueunits"))
    mode = {"bin8": "binary 8", "bin4": "binary 4", "txt": "text"}[rep]
    require(r["mode"] == mode, "header-mode", r["mode"])
    data = r["data"]
    if ext_scalar:
        ok = values_match(data[..., 0:1], want, rep) and not data[..., 1:].any()
    else:
        ok = values_match(data, want, rep)
    if not ok:
        raise Violation(f"independent-reader-values-{rep}", "an independent OVF reader decodes other values (ordering?)")


# --------------------------------------------------------------------------- foreign files


@st.composite
def foreign_case(draw):
    g = draw(geom3())
    version = draw(st.sampled_from([1, 2]))
    k = 3 if version == 1 else draw(st.integers(1, 5))
    mode = draw(st.sampled_from(REPS))
    return {"g": g, "version": version, "k": k, "mode": mode, "seed": draw(st.integers(0, 2**31)),
            "vals": draw(st.sampled_from(["int", "wide"])), "trailing_blank": draw(st.booleans()),
            "crlf": draw(st.booleans()) if mode == "txt" else False,
            "labels": draw(st.sampled_from([None, "m", "comp"])), "unit": draw(st.sampled_from(["A/m", "T", "1"])),
            "ext": draw(st.sampled_from([".ovf", ".omf", ".ohf"]))}


def check_foreign(case):
    import discretisedfield as df

    g = case["g"]
    n = tuple(g["n"])
    k, mode, version = case["k"], case["mode"], case["version"]
    tag(f"v{version}-{mode}")
    arr = make_values(case, (*n, k))
    pmin = [min(a, b) for a, b in zip(g["p1"], g["p2"])]
    pmax = [max(a, b) for a, b in zip(g["p1"], g["p2"])]
    labels = None
    if case["labels"] and version == 2:
        labels = [f"{case['labels']}_{c}" for c in "xyzuvw"[:k]]
    with tempfile.TemporaryDirectory() as tmp:
        path = os.path.join(tmp, "foreign" + case["ext"])
        ovf_ref.write(path, pmin=pmin, pmax=pmax, n=n, data=arr, version=version, mode=mode,
                      meshunit=(g["units"] or ["m"])[0], labels=labels, units=[case["unit"]] * k,
                      trailing_blank=case["trailing_blank"], crlf=case["crlf"])
        try:
            f = df.Field.from_file(path)
        except Exception as e:  # noqa: BLE001
            raise Violation(f"foreign-rejected-v{version}-{mode}", f"{type(e).__name__}: {e}") from None
    require(np.array_equal(f.mesh.n, n), "foreign-n", f"{f.mesh.n} vs {n}")
    require(np.array_equal(f.mesh.region.pmin, np.array(pmin, dtype=float)) and
            np.array_equal(f.mesh.region.pmax, np.array(pmax, dtype=float)), "foreign-corners")
    require(f.nvdim == k and f.array.shape == (*n, k), "foreign-nvdim", f"{f.array.shape}")
    want = expected_values(arr, mode)
    if not values_match(f.array, want, mode):
        raise Violation(f"foreign-values-v{version}-{mode}", "values differ from what the independent writer stored")
    if version == 2:
        require(f.unit == case["unit"], "foreign-unit", f"{f.unit!r} vs {case['unit']!r}")
        if labels and k > 1:
            require(list(f.vdims) == list("xyzuvw"[:k]), "foreign-labels", f"{f.vdims}")
    require(f.mesh.region.units[0] == (g["units"] or ["m"])[0], "foreign-meshunit")


# --------------------------------------------------------------------------- faults (exhaustive per file)

FAULT_FILES = []
for _i, (_n, _k, _rep) in enumerate([((2, 1, 3), 3, "bin8"), ((1, 2, 2), 1, "bin4"), ((3, 2, 1), 2, "bin4"),
                                     ((2, 2, 2), 1, "bin8"), ((1, 1, 1), 3, "bin8"), ((2, 3, 1), 4, "bin4")]):
    FAULT_FILES.append({"g": {"p1": [0.0, -1e-9 * (_i + 1), 0.5], "p2": [_n[0] * 0.3, 2e-9, 0.5 + _n[2] * 7.0],
                              "n": list(_n), "dims": None, "units": None, "tol": None, "exp": 0},
                        "subs": [], "k": _k, "vdims": None, "unit": "A/m", "vals": "int", "seed": 100 + _i,
                        "rep": _rep})


def write_fault_file(case, tmp):
    mesh, f, arr = build_field(case)
    path = os.path.join(tmp, "f.ovf")
    f.to_file(path, representation=case["rep"])
    return path, open(path, "rb").read(), arr


def data_end(raw, case):
    marker = b"# Begin: Data"
    i = raw.index(marker)
    j = raw.index(b"\n", i) + 1
    nb = 8 if case["rep"] == "bin8" else 4
    count = int(np.prod(case["g"]["n"])) * case["k"]
    return j, j + nb, j + nb + count * nb


def enum_truncation(tier):
    files = FAULT_FILES if tier == "thorough" else FAULT_FILES[:4]
    for fi, fc in enumerate(files):
        with tempfile.TemporaryDirectory() as tmp:
            _, raw, _ = write_fault_file(fc, tmp)
        block = 40
        for start in range(0, len(raw), block):
            yield {"file": fi, "start": start, "stop": min(len(raw), start + block)}


def check_truncation(case):
    import discretisedfield as df

    fc = FAULT_FILES[case["file"]]
    with tempfile.TemporaryDirectory() as tmp:
        path, raw, arr = write_fault_file(fc, tmp)
        want = expected_values(arr, fc["rep"])
        _, _, dend = data_end(raw, fc)
        for cut in range(case["start"], case["stop"]):
            with open(path, "wb") as fh:
                fh.write(raw[:cut])
            try:
                f = df.Field.from_file(path)
            except Exception:  # noqa: BLE001 - rejection is what the property demands
                tag("rejected")
                continue
            if cut < dend:
                raise Violation("truncated-accepted", f"file {case['file']} ({fc['rep']}, {len(raw)} bytes) cut at {cut} "
                                                      f"< end of data block {dend} yields a field")
            tag("complete-data-accepted")
            if not (f.array.shape == want.shape and np.array_equal(f.array, want)):
                raise Violation("truncated-other-values", f"cut at {cut}: field with other values")


def enum_check_value(tier):
    for fi, fc in enumerate(FAULT_FILES):
        nb = 8 if fc["rep"] == "bin8" else 4
        for byte in range(nb):
            for bit in range(8):
                yield {"file": fi, "kind": "flip", "byte": byte, "bit": bit}
        for rep in ["zero", "nan", "swapped", "other-width", "one", "neg"]:
            yield {"file": fi, "kind": rep}


def check_check_value(case):
    import discretisedfield as df

    fc = FAULT_FILES[case["file"]]
    nb = 8 if fc["rep"] == "bin8" else 4
    fmt = "<d" if nb == 8 else "<f"
    good = struct.pack(fmt, ovf_ref.CHECK[nb])
    with tempfile.TemporaryDirectory() as tmp:
        path, raw, arr = write_fault_file(fc, tmp)
        cstart, cend, _ = data_end(raw, fc)
        require(raw[cstart:cend] == good, "check-value-not-written", f"{raw[cstart:cend]!r}")
        if case["kind"] == "flip":
            b = bytearray(good)
            b[case["byte"]] ^= 1 << case["bit"]
            new = bytes(b)
        elif case["kind"] == "zero":
            new = bytes(nb)
        elif case["kind"] == "nan":
            new = struct.pack(fmt, float("nan"))
        elif case["kind"] == "swapped":
            new = good[::-1]
        elif case["kind"] == "other-width":
            new = struct.pack(fmt, ovf_ref.CHECK[4 if nb == 8 else 8])
        elif case["kind"] == "one":
            new = struct.pack(fmt, 1.0)
        else:
            new = struct.pack(fmt, -ovf_ref.CHECK[nb])
        tag(case["kind"])
        with open(path, "wb") as fh:
            fh.write(raw[:cstart] + new + raw[cend:])
        try:
            f = df.Field.from_file(path)
        except Exception:  # noqa: BLE001
            return
        raise Violation("wrong-check-value-accepted", f"file {case['file']} ({fc['rep']}): check value {new.hex()} "
                                                      f"({case}) accepted, field of shape {f.array.shape}")


# --------------------------------------------------------------------------- same-stem files and side-cars


@st.composite
def sidecar_case(draw):
    g = draw(geom3(nmax=3))
    g["exp"] = min(g["exp"], 0)
    if draw(st.booleans()):
        g = {"p1": [0.0, 0.0, 0.0], "p2": [3e-9, 2e-9, 4e-9], "n": [3, 2, 4], "dims": None, "units": None, "tol": None, "exp": -9}
    files = []
    for ext in draw(st.permutations([".ovf", ".omf", ".ohf"])):
        files.append({"ext": ext, "subs": draw(gen.index_boxes(g["n"], 2)), "seed": draw(st.integers(0, 2**31)),
                      "rep": draw(st.sampled_from(REPS))})
    return {"g": g, "files": files}


def check_sidecar(case):
    import discretisedfield as df

    g = case["g"]
    n = tuple(g["n"])
    with tempfile.TemporaryDirectory() as tmp:
        written = []
        for fc in case["files"]:
            try:
                mesh = gen.build_mesh(g, subs=fc["subs"])
            except ValueError:
                raise Reject() from None
            arr = gen.make_array(fc["seed"], (*n, 3))
            f = df.Field(mesh, nvdim=3, value=np.array(arr, copy=True))
            path = os.path.join(tmp, "relax" + fc["ext"])
            f.to_file(path, representation=fc["rep"])
            written.append((path, fc, arr))
        for path, fc, arr in written:
            back = df.Field.from_file(path)
            names = [s[0] for s in fc["subs"]]
            if list(back.mesh.subregions) != names:
                raise Violation("sidecar-cross-talk", f"{os.path.basename(path)} written with subregions {names} comes "
                                                      f"back with {list(back.mesh.subregions)}")
            ref = gen.build_mesh(g, subs=fc["subs"])
            for nm in names:
                require(back.mesh.subregions[nm] == ref.subregions[nm], "sidecar-corners", nm)
            require(values_match(back.array, expected_values(arr, fc["rep"]), fc["rep"]), "sidecar-values")


# --------------------------------------------------------------------------- structured fuzzing of the reader


def check_fuzz_input(case):
    """one structured mutation of a valid file (pbt/fuzz_ovf.py), oracle = reject-or-equal against the reference reader"""
    from pbt import fuzz_ovf

    try:
        fuzz_ovf.target(bytes.fromhex(case["hex"]))
    except fuzz_ovf.FuzzViolation as v:
        raise Violation(v.sig, v.msg + f" (input {case['hex']})") from None


def enum_atheris(tier):
    """coverage-guided campaign (atheris / libFuzzer), thorough tier only"""
    if tier != "thorough":
        return
    for shard in range(8):
        yield {"campaign": shard, "runs": int(os.environ.get("VERIF_FUZZ_RUNS", "150000"))}


def check_atheris_campaign(case):
    import glob
    import subprocess
    import sys

    from pbt import core

    deps = os.path.join(core.VERIF, ".deps")
    env = dict(os.environ, PYTHONPATH=deps + os.pathsep + os.environ.get("PYTHONPATH", ""))
    seed = int(os.environ.get("VERIF_SEED", "1")) * 100 + case["campaign"] + 1
    with tempfile.TemporaryDirectory() as tmp:
        corpus = os.path.join(tmp, "corpus")
        os.makedirs(corpus)
        if case["campaign"] % 2:  # half of the campaigns start from a few seeds, half from an empty corpus
            for i in range(6):
                open(os.path.join(corpus, f"s{i}"), "wb").write(bytes([i, 2, 0, 3, 0, 1]))
        r = subprocess.run([sys.executable, os.path.join(core.VERIF, "pbt", "fuzz_ovf.py"), f"-runs={case['runs']}",
                            f"-seed={seed}", "-max_len=48", "-len_control=0", f"-artifact_prefix={tmp}/", corpus],
                           capture_output=True, text=True, env=env, cwd=tmp)
        if r.returncode == 3:
            tag("atheris-not-installed")
            raise Reject()
        crashes = glob.glob(os.path.join(tmp, "crash-*"))
        done = [l for l in r.stderr.splitlines() if "DONE" in l or "cov:" in l][-1:]
        tag("campaign-" + ("seeded-corpus" if case["campaign"] % 2 else "empty-corpus"))
        if crashes:
            data = open(crashes[0], "rb").read()
            rdir = os.path.join(core.OUT, "replays", "C09")
            os.makedirs(rdir, exist_ok=True)
            with open(os.path.join(rdir, f"fuzz-input-{data.hex()[:16]}.json"), "w") as fh:
                import json
                json.dump({"property": "C09", "sub": "fuzz-structured", "case": {"hex": data.hex()}}, fh)
            check_fuzz_input({"hex": data.hex()})  # raises the Violation with the oracle's own message
            raise Violation("fuzz-crash", f"atheris stopped on input {data.hex()} but the target does not fail on replay: "
                                          f"{r.stderr[-300:]}")
        if r.returncode != 0:
            raise RuntimeError(f"atheris run failed: {r.stderr[-500:]}")
        core.add_evaluations(case["runs"])


def enum_large(tier):
    """fields with more than 100 000 numbers: the writer works in chunks of that size"""
    for rep in REPS:
        for n, k in (((47, 31, 23), 3),) + ((((101, 33, 31), 1),) if tier == "thorough" else ()):
            yield {"g": {"p1": [0.0, 0.0, 0.0], "p2": [n[0] * 1e-9, n[1] * 2e-9, n[2] * 0.5e-9], "n": list(n), "dims": None,
                         "units": None, "tol": None, "exp": -9}, "subs": [], "k": k, "vdims": None, "unit": "A/m",
                   "vals": "wide" if rep != "bin4" else "int", "seed": 7, "rep": rep, "extend_scalar": False,
                   "save_subregions": False, "ext": ".omf"}
    # numbers of written values at, just below and just above multiples of the chunk size, for written widths 1, 2, 3
    # (a chunk boundary inside a cell, at a cell boundary, at the very end)
    boundary = [((100, 100, 10), 1, False), ((100, 100, 10), 3, False), ((50, 100, 10), 2, False),
                ((100, 100, 10), 1, True), ((3, 41, 271), 3, False), ((2, 7, 2381), 3, False)]
    if tier == "thorough":
        boundary += [((200, 100, 10), 3, False), ((100, 100, 20), 1, True), ((99999, 1, 1), 1, False), ((1, 100001, 1), 1, False),
                     ((50, 100, 20), 2, False), ((25, 100, 10), 4, False), ((7, 11, 433), 3, False)]
    for i, (n, k, ext) in enumerate(boundary):
        rep = ["bin8", "bin4"][i % 2]
        yield {"g": {"p1": [0.0, 0.0, 0.0], "p2": [n[0] * 1e-9, n[1] * 2e-9, n[2] * 0.5e-9], "n": list(n), "dims": None,
                     "units": None, "tol": None, "exp": -9}, "subs": [], "k": k, "vdims": None, "unit": "A/m",
               "vals": "int", "seed": 11 + i, "rep": rep, "extend_scalar": ext, "save_subregions": False, "ext": ".ovf"}


SUBS = [
    Sub("roundtrip-large", check_roundtrip, enum=enum_large, nontrivial=nontrivial, enum_shards=lambda t: 9 if t == "quick" else 16),
    Sub("roundtrip", check_roundtrip, field_case(), nontrivial=nontrivial, quick=500, thorough=4000),
    Sub("foreign", check_foreign, foreign_case(), nontrivial=nontrivial, quick=400, thorough=3000),
    Sub("truncation", check_truncation, enum=enum_truncation, enum_shards=lambda t: 4 if t == "quick" else 12),
    Sub("check-value", check_check_value, enum=enum_check_value, enum_shards=lambda t: 2 if t == "quick" else 4),
    Sub("sidecar", check_sidecar, sidecar_case(), quick=120, thorough=800),
    Sub("fuzz-structured", check_fuzz_input, st.binary(min_size=1, max_size=40).map(lambda b: {"hex": b.hex()}),
        quick=1500, thorough=20000),
    Sub("fuzz-atheris", check_atheris_campaign, enum=enum_atheris, enum_shards=lambda t: 8),
]


# objects with a history (reads that may fill caches, in-place writes): observables equal those of a fresh object
from pbt import aged as _aged  # noqa: E402

SUBS.append(_aged.sub("C09", quick=60))
ASSUMPTIONS = list(ASSUMPTIONS) + ["aged sub-property: library results are a function of the public primary state "
                                   "(corners, n, names, units, bc, subregions, array, validity, labels, mapping, unit)"]

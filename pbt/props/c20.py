"""C20 - matplotlib plots draw the field's own numbers at their physical coordinates."""
from fractions import Fraction as F
import itertools

import numpy as np
from hypothesis import strategies as st

from pbt import gen
from pbt.core import Reject, Sub, Violation, require, tag
from pbt.ref.lattice import Lattice

RULE = (
    "Hypothesis-generated 2-d fields (nvdim 1-3, custom labels, in-plane components chosen by a permuted / partial "
    "mapping or explicit vdims, masks, anisotropic cells, scales 1e-9..1e3, units) x plot kind {mpl(), scalar, vector, "
    "contour, lightness} x default/explicit SI multiplier x filter / colour / lightness field on the same or a "
    "different resolution (incl. equal cell count but different n); oracle: inspection of the matplotlib artists "
    "(AxesImage array / origin / extent, Quiver X Y U V Umask and colour array, ContourSet vertices, axis labels) and a "
    "pixel-lookup consumer; field state compared before/after; non-trivial = n0 != n1, non-uniform data, a mask with "
    "both values or a permuted mapping"
)
ASSUMPTIONS = [
    "Agg backend; artists are read through public matplotlib API (get_array, get_extent, Quiver.X/Y/U/V/Umask, get_paths)",
    "auxiliary fields of another resolution: a cell whose centre lies on a face of the auxiliary mesh may take either neighbour",
]

MULTS = {1e-9: "n", 1e-6: "u", 1e-3: "m", 1: "", 1e3: "k"}
PREFIX = {1e-24: "y", 1e-21: "z", 1e-18: "a", 1e-15: "f", 1e-12: "p", 1e-9: "n", 1e-6: "u", 1e-3: "m", 1: "", 1e3: "k", 1e6: "M",
          1e9: "G", 1e12: "T"}


@st.composite
def plot_case(draw):
    g = draw(gen.geom(ndim=2, nmin=1, nmax=6, exps=(-9, 3), big_offsets=False, tol=False, units=False))
    g["units"] = [draw(st.sampled_from(["m", "m", "s", "T"])) for _ in range(2)] if draw(st.booleans()) else None
    mixg = ((draw(st.integers(0, 2**32)) + 0x20C) * 0x9E3779B97F4A7C15) % 2**64 >> 23
    if mixg % 5 == 0:
        # integer-typed corners of a few hundred to a few thousand (metres shown in km, or any explicit multiplier): the
        # corners divided by the multiplier are not integers
        lo = [((mixg >> (8 + 12 * d)) % 41 - 20) * 50 for d in range(2)]
        ed = [(8 + (mixg >> (32 + 8 * d)) % 23) * 125 for d in range(2)]
        g["p1"], g["p2"], g["exp"] = [int(v) for v in lo], [int(l + e) for l, e in zip(lo, ed)], 0
        g.pop("by_cell", None)
        g.pop("stretched", None)
    k = draw(st.integers(1, 3))
    kind = draw(st.sampled_from(["scalar", "contour", "lightness", "mpl"] if k == 1 else ["vector", "vector", "mpl", "lightness", "lightness"]))
    # auxiliary field resolution: the same, transposed, another factorisation of the same number of cells (a shortcut
    # keyed on the cell count must still resample), or unrelated
    aux_n = draw(st.sampled_from(["same", "same", "swapped", "same-count", "same-count", "other"]))
    return {"g": g, "k": k, "kind": kind, "vdims": draw(gen.vdims_strategy(k)), "perm": list(draw(st.permutations(range(3)))),
            "use_vdims_arg": draw(st.booleans()), "seed": draw(st.integers(0, 2**31)), "mask": draw(gen.mask_spec(2)),
            "override": ((draw(st.integers(0, 2**32)) + 0xC20) * 0x9E3779B97F4A7C15) % 2**64 >> 20,
            "mult": draw(st.sampled_from([None, None, 1e-9, 1e-6, 1e-3, 1, 1e3])) if mixg % 5 else
                    [None, 1e3, 1e3, 1e6][(mixg >> 50) % 4],
            # an auxiliary field that this kind of plot uses
            "aux": draw(st.sampled_from({"scalar": ["none", "filter", "filter"], "contour": ["none", "filter", "filter"],
                                         "lightness": ["none", "filter", "lightness", "lightness"],
                                         "vector": ["none", "color", "color"], "mpl": ["none", "none", "filter"]}[kind])),
            "aux_n": aux_n,
            "aux_other": [draw(st.integers(1, 7)), draw(st.integers(1, 7))], "aux_seed": draw(st.integers(0, 2**31)),
            "lin": [draw(st.integers(-3, 3)), draw(st.integers(-3, 3)), draw(st.integers(-2, 2))]}


def build(case):
    import discretisedfield as df

    g = case["g"]
    n = tuple(g["n"])
    k = case["k"]
    mesh = gen.build_mesh(g)
    dims = gen.dims_of(g)
    labels = case["vdims"] or gen.default_vdims(k)
    arr = gen.make_array(case["seed"], (*n, k), "int") + 0.5
    arr[..., 0] = np.arange(int(np.prod(n))).reshape(n) + 0.25
    kw = {}
    comp_axis = {}
    if case["vdims"]:
        kw["vdims"] = list(case["vdims"])
    if k > 1:
        # component c -> axis perm[c] if < 2 else unmapped
        tg = [dims[p] if p < 2 else None for p in case["perm"][:k]]
        if k == 2 and None in tg:
            tg = [dims[case["perm"][0] % 2], dims[1 - case["perm"][0] % 2]]
        mapping = {labels[c]: tg[c] for c in range(k)}
        if not case["use_vdims_arg"]:
            kw["vdim_mapping"] = gen.shuffled_mapping(mapping, case["seed"])
        else:
            kw["vdim_mapping"] = {}
        for c in range(k):
            if tg[c] is not None:
                comp_axis[dims.index(tg[c])] = c
    f = df.Field(mesh, nvdim=k, value=np.array(arr, copy=True), valid=gen.make_mask(case["mask"], n), **kw)
    return mesh, f, arr, labels, comp_axis


def aux_field(case, mesh, lat):
    """auxiliary (filter / colour) field; returns (field, expected per-cell option lists on the plotted mesh)"""
    import discretisedfield as df

    n = lat.n
    if case["aux_n"] == "same":
        n2 = list(n)
    elif case["aux_n"] == "swapped":
        n2 = [n[1], n[0]]
    elif case["aux_n"] == "same-count":
        tot = int(n[0]) * int(n[1])
        facs = [[a, tot // a] for a in range(1, tot + 1) if tot % a == 0 and [a, tot // a] != [int(n[0]), int(n[1])]]
        n2 = facs[case["aux_seed"] % len(facs)] if facs else [n[1], n[0]]
    else:
        n2 = list(case["aux_other"])
    m2 = df.Mesh(region=mesh.region, n=n2)
    rng = np.random.default_rng(case["aux_seed"])
    vals = rng.choice([0.0, 0.0, 0.25, -1.0, 2.0, 1e-9], size=(*n2, 1))  # exactly zero hides a cell, nothing else does
    if case["aux"] in ("color", "lightness"):
        vals = np.arange(int(np.prod(n2))).reshape(*n2, 1) + 0.125
    af = df.Field(m2, nvdim=1, value=vals)
    lat2 = Lattice([float(x) for x in mesh.region.pmin], [float(x) for x in mesh.region.pmax], n2)
    opts = {}
    for idx in lat.indices():
        c = lat.centre(idx)
        ad = [lat2.admissible_axis(d, float(c[d]), lat2.cell[d] * F(1, 10**8) + lat2.fp_tol(d)) for d in range(2)]
        opts[idx] = [float(vals[j][0]) for j in itertools.product(*ad)]
    return af, opts


def snapshot(f):
    return (f.array.tobytes(), f.valid.tobytes(), f.mesh.region.pmin.tobytes(), f.mesh.region.pmax.tobytes(),
            tuple(int(i) for i in f.mesh.n), None if f.vdims is None else tuple(f.vdims))


def nontrivial(case):
    n = case["g"]["n"]
    return n[0] != n[1] or case["mask"][0] != "all" or (case["k"] > 1 and case["perm"][:2] != [0, 1])


def check_extent(ext, lat, mult, what):
    want = [float(lat.pmin[0]) / mult, float(lat.pmax[0]) / mult, float(lat.pmin[1]) / mult, float(lat.pmax[1]) / mult]
    scale = max(abs(w) for w in want) + (want[1] - want[0])
    if any(abs(a - b) > 1e-9 * scale for a, b in zip(ext, want)):
        raise Violation(f"{what}-extent", f"{list(ext)} vs {want}")


def check_image(im, lat, values, drawn, mult, what, undecided=None):
    """values (n0, n1) expected numbers; drawn (n0, n1) bool; undecided: cells whose centre lies on a face of the filter
    field's mesh (either neighbour may decide) - their visibility is not compared"""
    n0, n1 = lat.n
    require(im.origin == "lower", f"{what}-origin", f"{im.origin}")
    check_extent(im.get_extent(), lat, mult, what)
    a = np.ma.masked_invalid(np.ma.asarray(im.get_array(), dtype=float))
    require(a.shape[:2] == (n1, n0), f"{what}-array-shape", f"{a.shape} for n={lat.n}")
    ext = im.get_extent()
    # pixel-lookup consumer: which pixel does the extent assign to the centre of cell (i, j)?
    for i in range(n0):
        for j in range(n1):
            c = lat.centre((i, j))
            x, y = float(c[0]) / mult, float(c[1]) / mult
            col = int(np.floor((x - ext[0]) / (ext[1] - ext[0]) * n0))
            row = int(np.floor((y - ext[2]) / (ext[3] - ext[2]) * n1))
            pix = a[row, col]
            hidden = bool(np.ma.getmaskarray(a)[row, col]) if a.ndim == 2 else None
            if undecided is not None and undecided[i, j]:
                continue
            if hidden != (not drawn[i, j]):
                raise Violation(f"{what}-hidden-cells", f"cell {(i, j)}: drawn={not hidden}, expected drawn={bool(drawn[i, j])}")
            if drawn[i, j] and values is not None and not np.isclose(float(pix), values[i, j], rtol=1e-12, atol=0):
                raise Violation(f"{what}-pixel-value", f"pixel at the centre of cell {(i, j)} shows {float(pix)}, field holds {values[i, j]}")


def _in_drawn_part(drawn, qi, qj, i, j):
    """matplotlib contours a quad of four cell centres completely if all four are drawn, and only the triangle of the
    three drawn ones if exactly one is hidden (corner masking); nothing otherwise"""
    corners = [(qi, qj), (qi + 1, qj), (qi + 1, qj + 1), (qi, qj + 1)]
    ok = [c for c in corners if drawn[c]]
    if len(ok) == 4:
        return True
    if len(ok) < 3:
        return False
    (x1, y1), (x2, y2), (x3, y3) = ok
    det = (y2 - y3) * (x1 - x3) + (x3 - x2) * (y1 - y3)
    l1 = ((y2 - y3) * (i - x3) + (x3 - x2) * (j - y3)) / det
    l2 = ((y3 - y1) * (i - x3) + (x1 - x3) * (j - y3)) / det
    return min(l1, l2, 1 - l1 - l2) >= -1e-6


def expected_mult(lat, case):
    if case["mult"] is not None:
        return case["mult"]
    # ubermagutil.units.si_max_multiplier: largest SI power of 1000 not exceeding the largest edge
    m = max(float(e) for e in lat.edges)
    best = None
    for p in sorted(PREFIX):
        if p <= m * (1 + 1e-12):
            best = p
    return best


def mult_on_threshold(lat, case):
    """the largest edge is within rounding of a power of 1000: the library decides from pmax - pmin as computed in
    floating point, either neighbouring prefix is right (thresholds are not probed, DESIGN section 3)"""
    if case["mult"] is not None:
        return False
    m = max(float(e) for e in lat.edges)
    return any(abs(m - p) <= 1e-9 * p for p in PREFIX)


def check_plot(case):
    import matplotlib

    matplotlib.use("Agg")
    import matplotlib.pyplot as plt
    from matplotlib.quiver import Quiver
    from matplotlib.contour import ContourSet

    g = case["g"]
    lat = gen.lattice_of(g)
    n = tuple(lat.n)
    mesh, f, arr, labels, comp_axis = build(case)
    dims, units = gen.dims_of(g), gen.units_of(g)
    kind, k = case["kind"], case["k"]
    tag(kind)
    valid = f.valid.copy()
    snap = snapshot(f)
    kw = {}
    if case["mult"] is not None:
        kw["multiplier"] = case["mult"]
    mult = expected_mult(lat, case)
    if mult is None or mult not in PREFIX or mult_on_threshold(lat, case):
        raise Reject()
    aux, opts = (None, None)
    if case["aux"] != "none":
        aux, opts = aux_field(case, mesh, lat)
        aux_snap = snapshot(aux)
        tag(f"aux-{case['aux']}-{case['aux_n']}")
    fig, ax = plt.subplots()
    comp_axis0 = dict(comp_axis)
    try:
        vd_arg = None
        if k > 1 and kind in ("vector", "mpl"):
            if 0 not in comp_axis and 1 not in comp_axis:
                raise Reject()
            vd_arg = [labels[comp_axis[0]] if 0 in comp_axis else None, labels[comp_axis[1]] if 1 in comp_axis else None]
        if kind == "scalar":
            if case["aux"] == "filter":
                kw["filter_field"] = aux
            f.mpl.scalar(ax=ax, **kw)
        elif kind == "contour":
            lin = case["lin"]
            if lin[0] == 0 and lin[1] == 0:
                raise Reject()
            # linear field a*i + b*j + c in cell-index units (exactly linear in the coordinates)
            I, J = np.meshgrid(np.arange(n[0]), np.arange(n[1]), indexing="ij")
            f.update_field_values((lin[0] * I + lin[1] * J + lin[2])[..., np.newaxis].astype(float))
            snap = snapshot(f)
            if n[0] < 2 or n[1] < 2:
                raise Reject()
            if case["aux"] == "filter":
                kw["filter_field"] = aux
            f.mpl.contour(ax=ax, **kw)
        elif kind == "lightness":
            if k > 1 and (0 not in comp_axis or 1 not in comp_axis or case["use_vdims_arg"]):
                raise Reject()
            if case["aux"] == "filter":
                kw["filter_field"] = aux
            elif case["aux"] == "lightness":
                kw["lightness_field"] = aux
            f.mpl.lightness(ax=ax, **kw)
        elif kind == "vector":
            ov = case.get("override")
            if ov is not None and k == 3 and not case["use_vdims_arg"] and case["aux"] != "color" and ov % 2 == 0:
                # explicit labels take precedence over the mapping: any ordered pair of components as arrows, the
                # remaining component as colour
                import itertools
                pair = list(itertools.permutations(range(3), 2))[(ov // 2) % 6]
                kw["vdims"] = [labels[pair[0]], labels[pair[1]]]
                comp_axis = {0: pair[0], 1: pair[1]}
                tag("vdims-override" + ("-other-plane" if set(pair) != {c for c in (comp_axis0.get(0), comp_axis0.get(1))} else ""))
            if case["use_vdims_arg"]:
                kw["vdims"] = vd_arg
            if case["aux"] == "color":
                kw["color_field"] = aux
            elif k != 3:
                kw["use_color"] = False
            f.mpl.vector(ax=ax, **kw)
        else:  # mpl()
            if k > 1 and case["use_vdims_arg"]:
                raise Reject()
            if k == 3 and (0 not in comp_axis or 1 not in comp_axis):
                raise Reject()
            f.mpl(ax=ax, **kw)
        # ---------------- field untouched (the plotted one and any field handed in as filter / colour / lightness)
        if snapshot(f) != snap:
            raise Violation("plot-modified-field", f"{kind}: array, validity or mesh changed by plotting")
        if aux is not None and snapshot(aux) != aux_snap:
            raise Violation("plot-modified-auxiliary-field", f"{kind}: the {case['aux']} field handed to the plot was "
                                                             f"changed by plotting")
        # ---------------- axis labels
        want_x = f"{dims[0]} ({PREFIX[mult]}{units[0]})"
        want_y = f"{dims[1]} ({PREFIX[mult]}{units[1]})"
        if ax.get_xlabel() != want_x or ax.get_ylabel() != want_y:
            raise Violation("axis-labels", f"{ax.get_xlabel()!r}, {ax.get_ylabel()!r} vs {want_x!r}, {want_y!r}")
        images = list(ax.images)
        quivers = [c for c in ax.collections if isinstance(c, Quiver)]
        # ---------------- drawn mask
        drawn = valid.copy()
        ambiguous = np.zeros(n, dtype=bool)
        if case["aux"] == "filter" and kind in ("scalar", "contour", "lightness"):
            for idx, o in opts.items():
                vis = {v != 0 for v in o}
                if len(vis) > 1:
                    ambiguous[idx] = True
                drawn[idx] = all(vis)
            # an explicit filter field replaces the default (validity) filter
            base = np.ones(n, dtype=bool)
            for idx, o in opts.items():
                base[idx] = all(v != 0 for v in o)
            drawn = base
        if kind == "scalar" or (kind == "mpl" and k in (1, 3)):
            require(len(images) == 1, "image-count", f"{len(images)}")
            if k == 1:
                vals = arr[..., 0]
            else:
                third = [c for c in range(3) if c not in (comp_axis.get(0), comp_axis.get(1))][0]
                vals = arr[..., third]
            check_image(images[0], lat, vals, drawn, mult, "image", undecided=ambiguous)
            if ambiguous.any():
                tag("filter-ties-skipped")
        if kind == "lightness":
            require(len(images) >= 1, "image-count")
            im = images[0]
            check_extent(im.get_extent(), lat, mult, "lightness")
            rgba = np.asarray(im.get_array())
            require(rgba.shape == (n[1], n[0], 4), "lightness-shape", f"{rgba.shape}")
            if ambiguous.any():
                # cells whose centre lies on a face of the filter mesh are not compared, all others are
                vis = rgba[..., 3].T > 0
                if np.any((vis != drawn) & ~ambiguous):
                    raise Violation("lightness-hidden-cells", f"{int(np.sum((vis != drawn) & ~ambiguous))} cells")
            if not ambiguous.any():
                vis = rgba[..., 3].T > 0
                if not np.array_equal(vis, drawn):
                    raise Violation("lightness-hidden-cells", f"{int(np.sum(vis != drawn))} cells")
                # drawn cells are opaque, hidden ones fully transparent; colours are valid RGB
                a = rgba[..., 3].T
                require(bool(np.all(a[drawn] == 1.0)) and bool(np.all(a[~drawn] == 0.0)), "lightness-alpha",
                        f"alpha values {np.unique(a)}")
                require(bool(np.all((rgba[..., :3] >= 0) & (rgba[..., :3] <= 1))), "lightness-rgb-range")
                if k in (2, 3) and 0 in comp_axis and 1 in comp_axis:
                    # "HSV to show in-plane angle and lightness for out-of-plane (3d) or norm (2d)": hue = angle of the
                    # components mapped to the two plot axes, lightness monotone in the out-of-plane component / norm /
                    # lightness field, spanning the whole range
                    import colorsys

                    ang = np.arctan2(arr[..., comp_axis[1]], arr[..., comp_axis[0]]) % (2 * np.pi)
                    if case["aux"] == "lightness" and case["aux_n"] == "same":
                        lq = np.asarray(aux.array[..., 0], dtype=float)
                    elif case["aux"] == "lightness":
                        lq = None
                    elif k == 3:
                        third = [c for c in range(3) if c not in (comp_axis[0], comp_axis[1])][0]
                        lq = arr[..., third].astype(float)
                    else:
                        lq = np.linalg.norm(arr.astype(float), axis=-1)
                    hl = np.array([[colorsys.rgb_to_hls(*rgba[j, i, :3]) for j in range(n[1])] for i in range(n[0])])
                    hue, lig = hl[..., 0], hl[..., 1]
                    inplane = np.hypot(arr[..., comp_axis[0]], arr[..., comp_axis[1]]) > 0
                    ok_h = drawn & inplane & (lig > 0.02) & (lig < 0.98)
                    dh = np.abs(((hue - ang / (2 * np.pi)) + 0.5) % 1.0 - 0.5)
                    if ok_h.any() and np.max(dh[ok_h]) > 1e-6:
                        i = tuple(np.argwhere(ok_h & (dh > 1e-6))[0])
                        raise Violation("lightness-hue", f"cell {i}: hue {hue[i]:.6f} but in-plane angle/2pi = "
                                                         f"{ang[i] / (2 * np.pi):.6f}")
                    if lq is not None and not case.get("clim"):
                        # the filter hides cells but every cell of the lightness quantity takes part in the scaling
                        lo, hi = float(lq.min()), float(lq.max())
                        if hi > lo:
                            want = (lq - lo) / (hi - lo)
                            if drawn.any() and np.max(np.abs(lig[drawn] - want[drawn])) > 1e-6:
                                i = tuple(np.argwhere(drawn & (np.abs(lig - want) > 1e-6))[0])
                                raise Violation("lightness-value", f"cell {i}: lightness {lig[i]:.6f}, expected "
                                                                   f"{want[i]:.6f} (quantity {lq[i]} in [{lo}, {hi}])")
                    tag("lightness-colours-checked")
        if kind == "vector" or (kind == "mpl" and k in (2, 3)):
            require(len(quivers) == 1, "quiver-count", f"{len(quivers)}")
            q = quivers[0]
            cx = np.array([float(lat.centre((i, 0))[0]) / mult for i in range(n[0])])
            cy = np.array([float(lat.centre((0, j))[1]) / mult for j in range(n[1])])
            X, Y = np.meshgrid(cx, cy)
            sc = max(np.max(np.abs(cx)), np.max(np.abs(cy)), 1e-300)
            if not (np.allclose(q.X, X.ravel(), rtol=1e-9, atol=1e-9 * sc) and np.allclose(q.Y, Y.ravel(), rtol=1e-9, atol=1e-9 * sc)):
                raise Violation("quiver-positions", "arrow positions are not the cell centres divided by the multiplier")
            U = arr[..., comp_axis[0]].T.ravel() if 0 in comp_axis else np.zeros(n).T.ravel()
            V = arr[..., comp_axis[1]].T.ravel() if 1 in comp_axis else np.zeros(n).T.ravel()
            hid = ~valid.T.ravel()
            um = np.ma.getmaskarray(np.ma.masked_invalid(q.U)) | (np.asarray(q.Umask) if np.ndim(q.Umask) else False)
            if not np.array_equal(np.asarray(um, dtype=bool), hid):
                raise Violation("quiver-hidden-cells", f"{int(np.sum(np.asarray(um, dtype=bool) != hid))} arrows")
            shown = ~hid
            if not (np.allclose(np.asarray(q.U)[shown], U[shown], rtol=1e-12, atol=0) and np.allclose(np.asarray(q.V)[shown], V[shown], rtol=1e-12, atol=0)):
                raise Violation("quiver-components", f"arrows do not show the components mapped to the plot axes "
                                                     f"({labels}, axis->component {comp_axis})")
            carr = q.get_array()
            if kind == "vector" and case["aux"] == "color":
                require(carr is not None, "quiver-colour-missing")
                ca = np.asarray(carr, dtype=float).reshape(n[1], n[0]).T
                for idx, o in opts.items():
                    if not any(np.isclose(ca[idx], v) for v in o):
                        raise Violation("quiver-colour", f"cell {idx}: colour value {ca[idx]} is not the colour field's value "
                                                         f"at that position {o}")
            elif kind == "vector" and k == 3:
                require(carr is not None, "quiver-colour-missing")
                third = [c for c in range(3) if c not in (comp_axis.get(0), comp_axis.get(1))]
                if len(third) == 1:
                    ca = np.asarray(carr, dtype=float).reshape(n[1], n[0]).T
                    if not np.allclose(ca[valid], arr[..., third[0]][valid], rtol=1e-12, atol=0):
                        raise Violation("quiver-colour", "arrows are not coloured by the out-of-plane component")
        if kind == "contour":
            sets = [c for c in ax.collections if isinstance(c, ContourSet)]
            require(len(sets) == 1, "contour-count", f"{len(sets)}")
            cs = sets[0]
            lin = case["lin"]
            c0 = [float(lat.centre((0, 0))[d]) for d in range(2)]
            cell = [float(lat.cell[d]) for d in range(2)]
            nverts = 0
            for level, path in zip(cs.levels, cs.get_paths()):
                for (x, y) in path.vertices:
                    i = (x * mult - c0[0]) / cell[0]
                    j = (y * mult - c0[1]) / cell[1]
                    val = lin[0] * i + lin[1] * j + lin[2]
                    nverts += 1
                    if abs(val - level) > 1e-6 * (abs(lin[0]) + abs(lin[1])) * max(n):
                        raise Violation("contour-geometry", f"vertex ({x}, {y}) of level {level}: field value there is {val}")
                    # hidden cells are not drawn: a contour runs only through quads of cell centres that are all drawn
                    if not ambiguous.any():
                        quads = [(qi, qj) for qi in {int(np.floor(i - 1e-9)), int(np.floor(i + 1e-9))}
                                 for qj in {int(np.floor(j - 1e-9)), int(np.floor(j + 1e-9))}
                                 if 0 <= qi < n[0] - 1 and 0 <= qj < n[1] - 1]
                        if quads and not any(_in_drawn_part(drawn, qi, qj, i, j) for qi, qj in quads):
                            raise Violation("contour-through-hidden-cells",
                                            f"vertex at cell coordinates ({i:.3f}, {j:.3f}) lies between cells that are "
                                            f"invalid or filtered out")
            tag("contour-vertices" if nverts else "contour-empty")
    finally:
        plt.close(fig)
        plt.close("all")


@st.composite
def sequence_case(draw):
    """two plots in a row: shared keyword dictionaries, and a validity mask edited in place between the plots"""
    g = draw(gen.geom(ndim=2, nmin=2, nmax=5, exps=(-9, 3), big_offsets=False, tol=False, units=False))
    return {"g": g, "k": draw(st.sampled_from([1, 3])), "seed": draw(st.integers(0, 2**31)),
            "mask1": draw(gen.mask_spec(2, allow_all=False)), "mask2": draw(gen.mask_spec(2, allow_all=False)),
            "kind": draw(st.sampled_from(["mpl", "scalar", "vector", "contour", "lightness"])),
            "scenario": draw(st.sampled_from(["shared-kw", "inplace-valid"]))}


def drawn_cells(ax, n, kind):
    """(n0, n1) bool: which cells the first image / quiver of the axes shows"""
    from matplotlib.quiver import Quiver

    if kind == "vector":
        q = [c for c in ax.collections if isinstance(c, Quiver)][0]
        um = np.ma.getmaskarray(np.ma.masked_invalid(q.U)) | (np.asarray(q.Umask) if np.ndim(q.Umask) else False)
        return ~np.asarray(um, dtype=bool).reshape(n[1], n[0]).T
    im = ax.images[0]
    a = np.asarray(im.get_array())
    if a.ndim == 3:
        return (a[..., 3] > 0).T
    return ~np.ma.getmaskarray(np.ma.masked_invalid(np.ma.asarray(im.get_array(), dtype=float))).T


def check_sequence(case):
    import matplotlib

    matplotlib.use("Agg")
    import matplotlib.pyplot as plt

    import discretisedfield as df

    g = case["g"]
    n = tuple(g["n"])
    k, kind = case["k"], case["kind"]
    if kind in ("scalar", "contour") and k != 1:
        kind = "mpl"
    if kind == "vector" and k == 1:
        kind = "scalar"
    mesh = gen.build_mesh(g)
    arr = gen.make_array(case["seed"], (*n, k), "int") + 0.5
    m1, m2 = gen.make_mask(case["mask1"], n), gen.make_mask(case["mask2"], n)
    if np.array_equal(m1, m2) or kind == "contour":
        # contour plots have no per-cell artist to inspect here
        if kind == "contour":
            kind = "scalar"
        if np.array_equal(m1, m2):
            m2 = ~m1 if (~m1).any() else m1
    kw = {"vdim_mapping": {"x": gen.dims_of(g)[0], "y": gen.dims_of(g)[1], "z": None}} if k == 3 else {}
    tag(case["scenario"])
    tag(kind)

    def plot(field, ax, shared):
        if kind == "mpl":
            field.mpl(ax=ax, scalar_kw=shared["scalar_kw"], vector_kw=shared["vector_kw"])
        elif kind == "scalar":
            field.mpl.scalar(ax=ax, **shared["plain"])
        elif kind == "vector":
            field.mpl.vector(ax=ax, **shared["plain"])
        else:
            field.mpl.lightness(ax=ax, **shared["plain"])

    try:
        # non-empty dictionaries (an empty one is falsy: `kw or {}` would hide a missing copy)
        shared = {"scalar_kw": {"cmap": "viridis"}, "vector_kw": {"scale": None}, "plain": {}}
        if case["scenario"] == "shared-kw":
            f1 = df.Field(mesh, nvdim=k, value=np.array(arr, copy=True), valid=m1, **kw)
            f2 = df.Field(mesh, nvdim=k, value=np.array(arr, copy=True), valid=m2, **kw)
            fig1, ax1 = plt.subplots()
            plot(f1, ax1, shared)
            fig2, ax2 = plt.subplots()
            plot(f2, ax2, shared)  # the very same keyword dictionaries
            got = drawn_cells(ax2, n, "vector" if kind == "vector" else "image")
            if not np.array_equal(got, m2):
                raise Violation("second-plot-uses-first-mask", f"{kind}: reusing the keyword dictionaries of an earlier plot "
                                                               f"changes which cells are drawn ({int(np.sum(got != m2))} cells)")
            require(shared == {"scalar_kw": {"cmap": "viridis"}, "vector_kw": {"scale": None}, "plain": {}},
                    "caller-kwargs-modified", f"{shared}")
        else:
            f1 = df.Field(mesh, nvdim=k, value=np.array(arr, copy=True), valid=m1.copy(), **kw)
            fig1, ax1 = plt.subplots()
            plot(f1, ax1, shared)
            f1.valid[...] = m2  # in-place edit of the mask
            fig2, ax2 = plt.subplots()
            plot(f1, ax2, {"scalar_kw": {}, "vector_kw": {}, "plain": {}})
            got = drawn_cells(ax2, n, "vector" if kind == "vector" else "image")
            if not np.array_equal(got, m2):
                raise Violation("plot-uses-stale-validity", f"{kind}: after editing field.valid in place the plot still hides "
                                                            f"the old cells ({int(np.sum(got != m2))} cells differ)")
    finally:
        plt.close("all")


def enum_refuse(tier):
    for k in ["ndim3", "ndim1", "scalar-of-vector", "contour-of-vector", "vector-of-scalar", "vector-no-mapping", "mpl-nvdim4",
              "filter-nvdim", "filter-ndim", "color-nvdim", "lightness-nvdim4", "vector-vdims-length"]:
        yield {"kind": k}


def check_refuse(case):
    import matplotlib

    matplotlib.use("Agg")
    import matplotlib.pyplot as plt

    import discretisedfield as df

    m1 = df.Mesh(p1=0, p2=4, n=4)
    m2 = df.Mesh(p1=(0, 0), p2=(4, 3), n=(4, 3))
    m3 = df.Mesh(p1=(0, 0, 0), p2=(4, 3, 2), n=(4, 3, 2))
    s2 = df.Field(m2, nvdim=1, value=1.0)
    v2 = df.Field(m2, nvdim=2, value=(1.0, 2.0))
    v3 = df.Field(m2, nvdim=3, value=(1.0, 2.0, 3.0), vdim_mapping={"x": "x", "y": "y", "z": None})
    k = case["kind"]
    fig, ax = plt.subplots()
    calls = {
        "ndim3": lambda: df.Field(m3, nvdim=1, value=1.0).mpl.scalar(ax=ax),
        "ndim1": lambda: df.Field(m1, nvdim=1, value=1.0).mpl.scalar(ax=ax),
        "scalar-of-vector": lambda: v2.mpl.scalar(ax=ax),
        "contour-of-vector": lambda: v3.mpl.contour(ax=ax),
        "vector-of-scalar": lambda: s2.mpl.vector(ax=ax),
        "vector-no-mapping": lambda: df.Field(m2, nvdim=3, value=(1.0, 2.0, 3.0)).mpl.vector(ax=ax),
        "mpl-nvdim4": lambda: df.Field(m2, nvdim=4, value=(1.0, 2.0, 3.0, 4.0)).mpl(ax=ax),
        "filter-nvdim": lambda: s2.mpl.scalar(ax=ax, filter_field=v2),
        "filter-ndim": lambda: s2.mpl.scalar(ax=ax, filter_field=df.Field(m3, nvdim=1, value=1.0)),
        "color-nvdim": lambda: v3.mpl.vector(ax=ax, color_field=v2),
        "lightness-nvdim4": lambda: df.Field(m2, nvdim=4, value=(1.0, 2.0, 3.0, 4.0)).mpl.lightness(ax=ax),
        "vector-vdims-length": lambda: v3.mpl.vector(ax=ax, vdims=["x"]),
    }
    try:
        calls[k]()
    except (ValueError, RuntimeError, TypeError, AttributeError):
        return
    finally:
        plt.close("all")
    raise Violation(f"not-refused:{k}")


SUBS = [
    Sub("plot", check_plot, plot_case(), nontrivial=nontrivial, quick=220, thorough=2500),
    # the filter field on another resolution, by construction (a third of the general cases have a filter, a third of
    # those on another resolution, and cells on filter faces are not compared)
    Sub("filter-resolution", check_plot,
        plot_case().map(lambda c: dict(c, k=1, kind=["scalar", "lightness", "scalar"][c["seed"] % 3], aux="filter", vdims=None,
                                       aux_n=["swapped", "same-count", "other", "other"][c["aux_seed"] % 4])),
        nontrivial=nontrivial, quick=150, thorough=1500),
    Sub("sequence", check_sequence, sequence_case(), quick=80, thorough=800),
    Sub("refuse", check_refuse, enum=enum_refuse),
]


# objects with a history (reads that may fill caches, in-place writes): observables equal those of a fresh object
from pbt import aged as _aged  # noqa: E402

SUBS.append(_aged.sub("C20", quick=40))
ASSUMPTIONS = list(ASSUMPTIONS) + ["aged sub-property: library results are a function of the public primary state "
                                   "(corners, n, names, units, bc, subregions, array, validity, labels, mapping, unit)"]

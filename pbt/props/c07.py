"""C07 - sub-selection, padding and resampling keep every value at its physical position."""
from fractions import Fraction as F
import itertools

import numpy as np
from hypothesis import strategies as st

from pbt import gen
from pbt.core import Reject, Sub, Violation, require, tag
from pbt.ref.lattice import Lattice

RULE = (
    "Hypothesis-generated fields (nvdim 1-3, masks, 0-3 subregions) on 1-4-d meshes at scales 1e-9..1e3; selection "
    "arguments are built from the lattice (cell centres, vertices = faces, interior fractions, unsorted ranges, "
    "vertex-aligned and arbitrary interior boxes, pad widths 0-3 x 3 modes, target resolutions 1-8); oracle: same value "
    "and validity at the same physical point through an exact lattice model (set-valued on faces) plus index arithmetic "
    "for shapes; non-trivial = a selection coordinate on a face, a vertex-aligned box with non-representable corners, a "
    "mask with both values or a subregion; distinct = SHA-1 of the case"
)
ASSUMPTIONS = [
    "exact Fraction lattice model; a coordinate on a face admits either neighbouring cell",
    "meshes with subregions use scales 1e-9..1 (the alignment tolerance is an absolute 1e-12, DESIGN section 6)",
]


@st.composite
def base_case(draw, ndim=(1, 4), subs=False, nmax=6):
    if draw(st.integers(0, 4)) == 0:
        g = draw(gen.geom_int(ndim=ndim))
    else:
        g = draw(gen.geom(ndim=ndim, nmax=nmax, exps=(-9, 0) if subs else (-9, 3), big_offsets=False, maxcells=600))
    nd = len(g["n"])
    k = draw(st.integers(1, 3))
    return {"g": g, "subs": draw(gen.index_boxes(g["n"], 3)) if subs else [], "k": k,
            "vdims": draw(gen.vdims_strategy(k)), "seed": draw(st.integers(0, 2**31)),
            "mask": draw(gen.mask_spec(nd)), "unit": draw(st.sampled_from(gen.FIELD_UNITS))}


def build(case):
    import discretisedfield as df

    g = case["g"]
    n = tuple(g["n"])
    mesh = gen.build_mesh(g, subs=case["subs"])
    arr = gen.make_array(case["seed"], (*n, case["k"]), "int")
    # make every cell value unique in component 0 so that a misplaced cell always shows
    arr[..., 0] = np.arange(int(np.prod(n))).reshape(n) * 1.0 + 0.5
    valid = gen.make_mask(case["mask"], n)
    kw = {"vdims": list(case["vdims"])} if case.get("vdims") else {}
    f = df.Field(mesh, nvdim=case["k"], value=np.array(arr, copy=True), valid=np.array(valid, copy=True), unit=case["unit"], **kw)
    return mesh, f, arr, valid


def nontrivial(case):
    sel = case.get("sel")
    face = False
    if sel:
        face = any(isinstance(s, list) and s and s[0] == "v" for s in (sel if isinstance(sel[0], list) else [sel]))
    return face or case["mask"][0] != "all" or bool(case["subs"]) or case["g"]["exp"] != 0


def coord(lat, d, s):
    """float coordinate on axis d of a lattice-relative spec"""
    kind = s[0]
    if kind == "c":
        v = lat.pmin[d] + (F(s[1]) + F(1, 2)) * lat.cell[d]
    elif kind == "v":
        v = lat.pmin[d] + F(s[1]) * lat.cell[d]
    elif kind == "f":
        v = lat.pmin[d] + (F(s[1]) + F(s[2])) * lat.cell[d]
    else:
        m = F(s[2]) * lat.cell[d]
        v = lat.pmin[d] - m if s[1] == 0 else lat.pmax[d] + m
    return float(v)


def adm(lat, d, s):
    """admissible cell indices on axis d for a spec (either neighbour on a face)"""
    if s[0] in ("c", "f"):
        return [s[1]]
    k = s[1]
    return [i for i in (k - 1, k) if 0 <= i < lat.n[d]]


@st.composite
def axis_spec(draw, n):
    k = draw(st.sampled_from(["c", "v", "f"]))
    if k == "c":
        return ["c", draw(st.integers(0, n - 1))]
    if k == "v":
        return ["v", draw(st.integers(0, n))]
    return ["f", draw(st.integers(0, n - 1)), draw(st.integers(1, 19)) / 20]


def meta_ok(res, f, sig):
    require(res.nvdim == f.nvdim, sig + "-nvdim")
    require((res.vdims is None and f.vdims is None) or list(res.vdims) == list(f.vdims), sig + "-labels")
    require(res.unit == f.unit, sig + "-unit", f"{res.unit} vs {f.unit}")


def corners_close(lat, d, got_lo, got_hi, lo_k, hi_k):
    return lat.close(got_lo, lat.vertex(d, lo_k), d, 256) and lat.close(got_hi, lat.vertex(d, hi_k), d, 256)


# --------------------------------------------------------------------------- plane


@st.composite
def plane_case(draw):
    c = draw(base_case(ndim=(1, 4), subs=draw(st.booleans())))
    nd = len(c["g"]["n"])
    c["axis"] = draw(st.integers(0, nd - 1))
    c["sel"] = draw(st.one_of(st.none(), axis_spec(c["g"]["n"][c["axis"]])))
    c["on"] = draw(st.sampled_from(["field", "mesh"]))
    return c


def owns_its_memory(res, f, arr, valid, what):
    """the result is a field of its own: overwriting its values and validity in place leaves the source as it was (and
    therefore every later selection from the source correct)"""
    res.array[...] = 0
    res.valid[...] = ~res.valid
    if not (np.array_equal(f.array, arr) and np.array_equal(f.valid, valid)):
        raise Violation(f"result-shares-memory:{what}", f"writing into the result of {what} changed the field it was taken from")


def check_plane(case):
    import discretisedfield as df

    mesh, f, arr, valid = build(case)
    g = case["g"]
    lat = gen.lattice_of(g)
    d = case["axis"]
    dims = gen.dims_of(g)
    nd = lat.ndim
    if case["sel"] is None:
        tag("central")
        n = lat.n[d]
        cands = [n // 2] if n % 2 else [n // 2 - 1, n // 2]
        call = lambda obj: obj.sel(dims[d])  # noqa: E731
    else:
        tag("value-" + case["sel"][0])
        cands = adm(lat, d, case["sel"])
        x = coord(lat, d, case["sel"])
        if case["seed"] % 3 == 0:
            x = np.float64(x)  # a numpy float, as it comes out of an array of coordinates
        call = lambda obj: obj.sel(**{dims[d]: x})  # noqa: E731
    if nd == 1:
        res = call(f)
        require(isinstance(res, np.ndarray), "plane-1d-type", f"{type(res)}")
        if not any(np.array_equal(res, arr[i]) for i in cands):
            raise Violation("plane-value", f"1-d: {res} not the value of cells {cands}")
        return
    rm = call(mesh)
    keep = [i for i in range(nd) if i != d]
    require(list(rm.region.dims) == [dims[i] for i in keep], "plane-dims", f"{rm.region.dims}")
    require(np.array_equal(rm.n, np.array(lat.n)[keep]), "plane-n", f"{rm.n}")
    for j, i in enumerate(keep):
        require(corners_close(lat, i, rm.region.pmin[j], rm.region.pmax[j], 0, lat.n[i]), "plane-corners")
    require(list(rm.region.units) == [gen.units_of(g)[i] for i in keep], "plane-units")
    res = call(f)
    require(isinstance(res, df.Field), "plane-type")
    require(res.mesh == rm, "plane-field-mesh")
    meta_ok(res, f, "plane")
    ok = False
    for i in cands:
        if np.array_equal(res.array, np.take(arr, i, axis=d)) and np.array_equal(res.valid, np.take(valid, i, axis=d)):
            ok = True
    if not ok:
        raise Violation("plane-value", f"axis {d} selection {case['sel']}: result is not the layer of cells {cands}")
    require(np.array_equal(f.array, arr) and np.array_equal(f.valid, valid), "source-modified")
    owns_its_memory(res, f, arr, valid, "plane")


# --------------------------------------------------------------------------- range


@st.composite
def range_case(draw):
    c = draw(base_case(ndim=(1, 4), subs=draw(st.booleans())))
    nd = len(c["g"]["n"])
    c["axis"] = draw(st.integers(0, nd - 1))
    n = c["g"]["n"][c["axis"]]
    a = draw(axis_spec(n))
    b = draw(axis_spec(n))
    if draw(st.integers(0, 2)) == 0 and not c["subs"]:
        # integer-cornered region with fractional cells, one bound a whole number (given as int), the other not
        c["g"] = draw(gen.geom_int(ndim=nd, fractional=True))
        c["mask"] = ["all"]
        n = c["g"]["n"][c["axis"]]
        lat_ = gen.lattice_of(c["g"])
        whole = [i for i in range(n + 1) if lat_.vertex(c["axis"], i).denominator == 1] or [0, n]
        a = ["v", draw(st.sampled_from(whole[: max(1, len(whole) - 1)]))]  # a whole-number vertex, mostly the lower bound
        b = draw(st.one_of(st.tuples(st.just("c"), st.integers(0, n - 1)).map(list),
                           st.tuples(st.just("f"), st.integers(0, n - 1), st.sampled_from([0.25, 0.5, 0.75])).map(list)))
        c["int_mix"] = True
    if c["subs"] and draw(st.booleans()):
        # a bound exactly on a subregion face
        sb = draw(st.sampled_from(c["subs"]))
        a = ["v", draw(st.sampled_from([sb[1][c["axis"]], sb[2][c["axis"]]]))]
    c["sel"] = [a, b]
    c["container"] = draw(st.sampled_from(["tuple", "list", "array"]))
    c["int_bounds"] = draw(st.booleans())
    if c.get("int_mix"):
        c["int_bounds"] = True
        c["container"] = draw(st.sampled_from(["tuple", "list"]))  # an array would convert both bounds to float
    return c


def spec_pos(s):
    return F(s[1]) + (F(1, 2) if s[0] == "c" else F(0) if s[0] == "v" else F(s[2]))


def check_range(case):
    import discretisedfield as df

    mesh, f, arr, valid = build(case)
    g = case["g"]
    lat = gen.lattice_of(g)
    d = case["axis"]
    dims = gen.dims_of(g)
    a, b = case["sel"]
    lo_s, hi_s = (a, b) if spec_pos(a) <= spec_pos(b) else (b, a)
    xa, xb = coord(lat, d, a), coord(lat, d, b)
    if case.get("int_bounds", True):
        # whole-number bounds are given as Python ints (mixed with a fractional other bound: (0, 7.5))
        xa, xb = (int(xa) if float(xa).is_integer() else xa), (int(xb) if float(xb).is_integer() else xb)
        if isinstance(xa, int) != isinstance(xb, int):
            tag("mixed-int-float-bounds")
    conv = {"tuple": tuple, "list": list, "array": np.array}[case["container"]]
    if case["seed"] % 3 == 0 and not case.get("int_mix"):
        xa, xb = (np.int64(xa) if isinstance(xa, int) else np.float64(xa)), (np.int64(xb) if isinstance(xb, int) else np.float64(xb))
    tag("face-bound" if "v" in (a[0], b[0]) else "interior-bounds")
    on_sub_face = any(s[0] == "v" and any(s[1] in (sb[1][d], sb[2][d]) for sb in case["subs"]) for s in (a, b))
    if on_sub_face:
        tag("bound-on-subregion-face")
    try:
        rm = mesh.sel(**{dims[d]: conv([xa, xb])})
    except ValueError as e:
        if "cannot be divided" in str(e) or "Subregion" in str(e):
            raise Violation("range-subregion-face", f"sel({dims[d]}=({xa}, {xb})) raises: {str(e)[:200]}") from None
        raise
    res = f.sel(**{dims[d]: conv([xa, xb])})
    require(isinstance(res, df.Field), "range-type")
    require(res.mesh == rm, "range-field-mesh")
    meta_ok(res, f, "range")
    cands = [(i, j) for i in adm(lat, d, lo_s) for j in adm(lat, d, hi_s) if i <= j]
    ok = None
    for i, j in cands:
        sl = [slice(None)] * lat.ndim
        sl[d] = slice(i, j + 1)
        if (int(rm.n[d]) == j - i + 1 and corners_close(lat, d, rm.region.pmin[d], rm.region.pmax[d], i, j + 1)
                and np.array_equal(res.array, arr[tuple(sl)]) and np.array_equal(res.valid, valid[tuple(sl)])):
            ok = (i, j)
    if ok is None:
        raise Violation("range-cells", f"axis {d} range {lo_s}..{hi_s}: result n={rm.n[d]} "
                                       f"[{rm.region.pmin[d]}, {rm.region.pmax[d]}] is none of the cell ranges {cands}")
    for e in range(lat.ndim):
        if e != d:
            require(int(rm.n[e]) == lat.n[e] and corners_close(lat, e, rm.region.pmin[e], rm.region.pmax[e], 0, lat.n[e]),
                    "range-other-axes")
    require(list(rm.region.dims) == dims and list(rm.region.units) == gen.units_of(g), "range-names")
    owns_its_memory(res, f, arr, valid, "range")


# --------------------------------------------------------------------------- by name / region / slices


@st.composite
def region_case(draw):
    c = draw(base_case(ndim=(1, 4), subs=True))
    n = c["g"]["n"]
    kind = draw(st.sampled_from(["name", "aligned", "aligned", "interior", "subregion-object"]))
    if kind in ("name", "subregion-object") and not c["subs"]:
        kind = "aligned"
    c["kind"] = kind
    if kind in ("name", "subregion-object"):
        c["which"] = draw(st.integers(0, len(c["subs"]) - 1))
    elif kind == "aligned":
        lo = [draw(st.integers(0, k - 1)) for k in n]
        c["lo"] = lo
        c["hi"] = [draw(st.integers(a + 1, k)) for a, k in zip(lo, n)]
    else:
        lo = [draw(st.integers(0, k - 1)) for k in n]
        hi = [draw(st.integers(a, k - 1)) for a, k in zip(lo, n)]
        c["lo"] = [["f", a, draw(st.integers(1, 9)) / 20] for a in lo]
        c["hi"] = [["f", b, draw(st.integers(11, 19)) / 20] for b in hi]
    return c


def check_region(case):
    import discretisedfield as df

    mesh, f, arr, valid = build(case)
    g = case["g"]
    lat = gen.lattice_of(g)
    nd = lat.ndim
    kind = case["kind"]
    tag(kind)
    if kind == "name":
        name, lo, hi = case["subs"][case["which"]]
        item = name
    elif kind == "subregion-object":
        name, lo, hi = case["subs"][case["which"]]
        item = mesh.subregions[name]
    elif kind == "aligned":
        lo, hi = case["lo"], case["hi"]
        a, b = gen.sub_corners(g, lo, hi)
        item = df.Region(p1=a, p2=b)
    else:
        a = [coord(lat, d, s) for d, s in enumerate(case["lo"])]
        b = [coord(lat, d, s) for d, s in enumerate(case["hi"])]
        lo = [s[1] for s in case["lo"]]
        hi = [s[1] + 1 for s in case["hi"]]
        item = df.Region(p1=a, p2=b)
    try:
        rm = mesh[item]
    except IndexError as e:
        raise Violation("getitem-region-indexerror", f"mesh[Region] for aligned box {lo}..{hi} raises IndexError: {e}") from None
    got_n = [int(i) for i in rm.n]
    want_n = [h - l for l, h in zip(lo, hi)]
    if got_n != want_n:
        sig = "getitem-region-extra-cell" if kind in ("aligned", "subregion-object") else "getitem-n"
        raise Violation(sig, f"{kind} box cells {lo}..{hi}: got n={got_n}, expected {want_n}")
    for d in range(nd):
        require(corners_close(lat, d, rm.region.pmin[d], rm.region.pmax[d], lo[d], hi[d]), "getitem-corners",
                f"axis {d}: {rm.region.pmin[d]}..{rm.region.pmax[d]}")
    require(np.allclose(rm.cell, mesh.cell, rtol=1e-9), "getitem-cell")
    require(list(rm.region.dims) == gen.dims_of(g) and list(rm.region.units) == gen.units_of(g), "getitem-names")
    res = f[item]
    require(res.mesh == rm, "getitem-field-mesh")
    meta_ok(res, f, "getitem")
    sl = tuple(slice(l, h) for l, h in zip(lo, hi))
    if not (np.array_equal(res.array, arr[sl]) and np.array_equal(res.valid, valid[sl])):
        raise Violation("getitem-value", f"{kind} box cells {lo}..{hi}: values/validity are not those of the source cells")
    if kind in ("aligned", "subregion-object", "name"):
        reg = item if not isinstance(item, str) else mesh.subregions[item]
        got = mesh.region2slices(reg)
        if tuple(got) != sl:
            raise Violation("region2slices", f"{got} vs {sl}")
    require(np.array_equal(f.array, arr) and np.array_equal(f.valid, valid), "source-modified")
    owns_its_memory(res, f, arr, valid, "getitem")


# --------------------------------------------------------------------------- pad


@st.composite
def pad_case(draw):
    c = draw(base_case(ndim=(1, 4), nmax=4))
    nd = len(c["g"]["n"])
    axes = [i for i in range(nd) if draw(st.booleans())] or [draw(st.integers(0, nd - 1))]
    c["pad"] = {str(i): [draw(st.integers(0, 3)), draw(st.integers(0, 3))] for i in axes}
    c["mode"] = draw(st.sampled_from(["constant", "edge", "wrap"]))
    c["width_type"] = draw(st.sampled_from(["int", "int", "uint8", "uint16", "uint32", "int8", "int32", "int64"]))
    c["width_container"] = draw(st.sampled_from(["tuple", "list", "array"]))
    return c


def check_pad(case):
    mesh, f, arr, valid = build(case)
    g = case["g"]
    lat = gen.lattice_of(g)
    dims = gen.dims_of(g)
    nd = lat.ndim
    # widths as Python ints or as numpy integers (signed and unsigned), in a tuple, a list or an array
    wt = case.get("width_type", "int")
    conv = (lambda v: tuple(v)) if wt == "int" else \
        (lambda v: list(np.dtype(wt).type(x) for x in v)) if case.get("width_container") == "list" else \
        (lambda v: np.array(v, dtype=wt)) if case.get("width_container") == "array" else \
        (lambda v: tuple(np.dtype(wt).type(x) for x in v))
    pw = {dims[int(i)]: conv(v) for i, v in case["pad"].items()}
    if wt != "int":
        tag("width-type=" + wt)
    mode = case["mode"]
    tag(mode)
    try:
        res = f.pad(pw, mode=mode)
    except TypeError:
        if wt.startswith("uint"):
            # numpy promotes a mixture of unsigned widths and the library's own (0, 0) entries to float and refuses
            # it ("must be of integral type"): a clean refusal of an argument type, not asserted either way
            raise Reject() from None
        raise
    lr = [case["pad"].get(str(d), [0, 0]) for d in range(nd)]
    want_n = [lat.n[d] + lr[d][0] + lr[d][1] for d in range(nd)]
    require([int(i) for i in res.mesh.n] == want_n, "pad-n", f"{res.mesh.n} vs {want_n}")
    for d in range(nd):
        require(corners_close(lat, d, res.mesh.region.pmin[d], res.mesh.region.pmax[d], -lr[d][0], lat.n[d] + lr[d][1]),
                "pad-corners", f"axis {d}")
    meta_ok(res, f, "pad")
    require(res.mesh.bc == mesh.bc, "pad-bc")
    # index model
    for j in itertools.product(*[range(k) for k in want_n]):
        src = []
        outside = False
        for d in range(nd):
            i = j[d] - lr[d][0]
            if 0 <= i < lat.n[d]:
                src.append(i)
                continue
            outside = True
            if mode == "edge":
                src.append(min(max(i, 0), lat.n[d] - 1))
            elif mode == "wrap":
                src.append(i % lat.n[d])
            else:
                src.append(None)
        if mode == "constant" and outside:
            ev, em = np.zeros(case["k"]), False
        else:
            ev, em = arr[tuple(src)], valid[tuple(src)]
        if not (np.array_equal(res.array[j], ev) and bool(res.valid[j]) == bool(em)):
            raise Violation("pad-value" if not outside else f"pad-outside-{mode}",
                            f"cell {j}: value {res.array[j]} valid {res.valid[j]}; expected {ev} {em}")
    mp = mesh.pad(pw)
    require(mp == res.mesh, "pad-mesh-vs-field")
    owns_its_memory(res, f, arr, valid, "pad")


# --------------------------------------------------------------------------- resample


@st.composite
def resample_case(draw):
    c = draw(base_case(ndim=(1, 4), nmax=6))
    c["n2"] = [draw(st.integers(1, 8)) for _ in c["g"]["n"]]
    return c


def check_resample(case):
    mesh, f, arr, valid = build(case)
    g = case["g"]
    lat = gen.lattice_of(g)
    nd = lat.ndim
    n2 = case["n2"]
    res = f.resample(tuple(n2))
    require([int(i) for i in res.mesh.n] == n2, "resample-n")
    require(np.array_equal(res.mesh.region.pmin, mesh.region.pmin) and np.array_equal(res.mesh.region.pmax, mesh.region.pmax),
            "resample-region")
    meta_ok(res, f, "resample")
    lat2 = Lattice(g["p1"], g["p2"], n2)
    ties = False
    for j in lat2.indices():
        c = lat2.centre(j)
        ad = [lat.admissible_axis(d, float(c[d]), lat.cell[d] * F(1, 10**8) + lat.fp_tol(d)) for d in range(nd)]
        if any(len(a) > 1 for a in ad):
            ties = True
        if not any(np.array_equal(res.array[j], arr[i]) and bool(res.valid[j]) == bool(valid[i])
                   for i in itertools.product(*ad)):
            raise Violation("resample-value", f"new cell {j}: value {res.array[j]} valid {res.valid[j]} is not that of a "
                                              f"source cell containing its centre (candidates {ad})")
    tag("ties" if ties else "no-ties")
    owns_its_memory(res, f, arr, valid, "resample")


# --------------------------------------------------------------------------- rejections


@st.composite
def reject_case(draw):
    c = draw(base_case(ndim=(1, 4)))
    nd = len(c["g"]["n"])
    c["axis"] = draw(st.integers(0, nd - 1))
    n = c["g"]["n"][c["axis"]]
    c["kind"] = draw(st.sampled_from(["value-outside", "range-outside", "region-outside", "unknown-dim", "two-dims",
                                      "value-nonfinite", "range-nonfinite"]))
    c["nonfinite"] = draw(st.sampled_from(["nan", "inf", "-inf"]))
    c["nf_type"] = draw(st.sampled_from(["float", "float64", "float32"]))
    c["side"] = draw(st.integers(0, 1))
    c["margin"] = draw(st.sampled_from([0.05, 0.5, 1.0, 3.0]))
    c["inner"] = draw(axis_spec(n))
    return c


def check_reject(case):
    import discretisedfield as df

    mesh, f, arr, valid = build(case)
    g = case["g"]
    lat = gen.lattice_of(g)
    dims = gen.dims_of(g)
    d = case["axis"]
    kind = case["kind"]
    tag(kind)
    out = coord(lat, d, ["o", case["side"], case["margin"]])
    inner = coord(lat, d, case["inner"])
    # the margin must exceed tolerance and rounding
    slack = float(F(g["tol"] or 1e-12) * (min(lat.edges) + abs(F(out)))) + float(lat.fp_tol(d))
    if case["margin"] * float(lat.cell[d]) <= 4 * slack:
        raise Reject()

    def expect(fn, what):
        try:
            r = fn()
        except Exception:  # noqa: BLE001
            return
        raise Violation(f"outside-accepted:{kind}", f"{what} accepted: {type(r).__name__}")

    if kind in ("value-nonfinite", "range-nonfinite"):
        # a coordinate that is no position at all (NaN) or infinitely far away lies in no cell: refused
        bad = {"float": float, "float64": np.float64, "float32": np.float32}[case["nf_type"]](case["nonfinite"])
        with np.errstate(all="ignore"):
            if kind == "value-nonfinite":
                expect(lambda: f.sel(**{dims[d]: bad}), f"sel({dims[d]}={bad!r})")
                expect(lambda: mesh.sel(**{dims[d]: bad}), f"mesh.sel({dims[d]}={bad!r})")
            else:
                pair = (bad, inner) if case["side"] == 0 else (inner, bad)
                expect(lambda: f.sel(**{dims[d]: pair}), f"sel({dims[d]}={pair!r})")
                expect(lambda: mesh.sel(**{dims[d]: list(pair)}), f"mesh.sel({dims[d]}={list(pair)!r})")
    elif kind == "value-outside":
        expect(lambda: f.sel(**{dims[d]: out}), f"sel({dims[d]}={out})")
        expect(lambda: mesh.sel(**{dims[d]: out}), f"mesh.sel({dims[d]}={out})")
    elif kind == "range-outside":
        expect(lambda: f.sel(**{dims[d]: (inner, out)}), f"sel({dims[d]}=({inner}, {out}))")
    elif kind == "region-outside":
        a = [float(x) for x in lat.pmin]
        b = [float(x) for x in lat.pmax]
        if case["side"] == 0:
            a[d] = out
        else:
            b[d] = out
        reg = df.Region(p1=a, p2=b)
        expect(lambda: f[reg], "field[Region sticking out]")
        expect(lambda: mesh[reg], "mesh[Region sticking out]")
    elif kind == "unknown-dim":
        expect(lambda: f.sel("nodim"), "sel('nodim')")
    else:
        if lat.ndim < 2:
            raise Reject()
        expect(lambda: f.sel(**{dims[0]: float(lat.centre([0] * lat.ndim)[0]), dims[1]: float(lat.centre([0] * lat.ndim)[1])}),
               "sel with two dimensions")
    require(np.array_equal(f.array, arr), "source-modified")


SUBS = [
    Sub("plane", check_plane, plane_case(), nontrivial=nontrivial, quick=500, thorough=3000),
    Sub("range", check_range, range_case(), nontrivial=nontrivial, quick=600, thorough=4000),
    Sub("region", check_region, region_case(), nontrivial=nontrivial, quick=600, thorough=4000),
    Sub("pad", check_pad, pad_case(), nontrivial=nontrivial, quick=250, thorough=1500),
    Sub("resample", check_resample, resample_case(), nontrivial=nontrivial, quick=300, thorough=2000),
    Sub("reject", check_reject, reject_case(), nontrivial=nontrivial, quick=400, thorough=2000),
]


# objects with a history (reads that may fill caches, in-place writes): observables equal those of a fresh object
from pbt import aged as _aged  # noqa: E402

SUBS.append(_aged.sub("C07", quick=250))
ASSUMPTIONS = list(ASSUMPTIONS) + ["aged sub-property: library results are a function of the public primary state "
                                   "(corners, n, names, units, bc, subregions, array, validity, labels, mapping, unit)"]

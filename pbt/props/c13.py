"""C13 - geometric invariants and in-place == copy hold after any transformation sequence."""
from fractions import Fraction as F

import numpy as np
from hypothesis import strategies as st

from pbt import gen
from pbt.core import Reject, Sub, Violation, require, tag
from pbt.ref.lattice import EPS
from pbt.props import c12

RULE = (
    "model-based histories (Hypothesis-generated lists of <= 8 (12) steps, shrunk as one value) of translate / scale / "
    "rotate90 with valid and malformed arguments of every documented type, each step in place or copying, applied to a "
    "Region, a Mesh with 0-2 subregions and a Field (with subregions, mask, scalar or fully mapped vector); every "
    "object has a twin advanced with the other form; after every step: invariants, exact affine image of the pre-state "
    "(Fractions), in-place returns self, object == twin, copying leaves the source bit-identical, malformed / "
    "degenerate steps raise in both forms without modification; non-trivial = >= 3 effective steps with an in-place "
    "step after an earlier effective step"
)
ASSUMPTIONS = [
    "growth budget: steps that would move coordinates beyond +-100 initial cells or cells outside [0.02, 50] x initial are "
    "skipped (the subregion alignment tolerance is an absolute 1e-12; DESIGN section 6)",
    "each step is compared with the exact affine image of the object's own pre-state (no model drift)",
]

FACTORS = [2, 0.5, -1, -2.0, 3, 0.25, 1.5, -0.5, 4, 1]


@st.composite
def step_strategy(draw, nd):
    kind = draw(st.sampled_from(["translate", "translate", "scale", "scale", "rot", "rot", "bad"]))
    inplace = draw(st.booleans())
    argtype = draw(st.sampled_from(["tuple", "list", "array", "numpy-scalars"]))
    if kind == "translate":
        vec = [draw(st.sampled_from([0, 1, -1, 2.5, -3, 7, 0.125, -10])) for _ in range(nd)]
        return ["translate", vec, argtype, inplace]
    if kind == "scale":
        if draw(st.booleans()):
            fac = draw(st.sampled_from(FACTORS))
        else:
            fac = [draw(st.sampled_from(FACTORS)) for _ in range(nd)]
        ref = None if draw(st.booleans()) else [draw(st.sampled_from([0, 1, -2, 0.5, 5, -40, 60])) for _ in range(nd)]
        return ["scale", fac, ref, argtype, inplace]
    if kind == "rot":
        a = draw(st.integers(0, nd - 1))
        b = draw(st.integers(0, nd - 1))
        ref = None if draw(st.booleans()) else [draw(st.sampled_from([0, 1, -2, 0.5, 5, -40, 60])) for _ in range(nd)]
        return ["rot", a, b, draw(st.integers(-5, 5)), ref, argtype, inplace]
    bads = ["scale-zero", "scale-zero-axis", "scale-length", "scale-str", "scale-none", "scale-nested",
            "translate-length", "translate-str", "translate-none", "rot-same-axis", "rot-unknown-axis",
            "rot-float-k", "scale-ref-length", "rot-ref-length",
            "scale-collapse", "scale-collapse", "scale-collapse-axis", "scale-collapse-axis",
            "rot-k-whole-float", "rot-k-whole-float", "rot-k-numpy-int",
            "rot-one-axis-unmapped", "rot-one-axis-unmapped", "rot-one-axis-unmapped"]
    # spread through a hashed wide integer: Hypothesis' sampled_from clusters on a few list positions per run
    bad = bads[(((draw(st.integers(0, 2**32)) + 977) * 0x9E3779B97F4A7C15) % 2**64 >> 16) % len(bads)]
    if bad.startswith("rot-k-"):
        # k = 1.0, np.float64(3.0), np.int64(2): either form may accept or refuse, but both the same way, a refusal
        # leaves the object untouched and an accepted call is the rotation by int(k)
        return ["bad", bad, draw(st.integers(0, nd - 1)), inplace, draw(st.sampled_from([1, 3, -1, 2, 5])),
                draw(st.sampled_from(["python", "numpy"]))]
    if bad.startswith("scale-collapse"):
        # a non-zero factor whose image collapses in floating point: tiny factor about a far reference point
        return ["bad", bad, draw(st.integers(0, nd - 1)), inplace, draw(st.sampled_from([17, 18, 20, 30, 200, 320])),
                draw(st.sampled_from([1e4, 1e6, 1e9])), draw(st.sampled_from(["far", "far", "centre", "none"]))]
    return ["bad", bad, draw(st.integers(0, nd - 1)), inplace]


@st.composite
def history_case(draw, max_steps=8, kforms=False):
    nd = draw(st.sampled_from([2, 3] if kforms else [1, 2, 2, 3, 3]))
    g = draw(gen.geom(ndim=nd, nmin=1, nmax=4, exps=(-9, 0), big_offsets=False, maxcells=64, units=False, tol=False))
    g["units"] = list(draw(st.permutations(c12.UNITS4)))[:nd]
    g2 = draw(gen.geom(ndim=nd, nmin=1, nmax=4, exps=(-9, 0), big_offsets=False, maxcells=64, units=False, tol=False))
    g2["units"] = list(draw(st.permutations(c12.UNITS4)))[:nd]
    steps = draw(st.lists(step_strategy(nd), min_size=0 if kforms else 3, max_size=max_steps))
    if kforms:
        # a quarter turn whose count is a whole-number float / numpy number, at a drawn place of the history
        mix = ((draw(st.integers(0, 2**40)) + 0xC13) * 0x9E3779B97F4A7C15) % 2**64 >> 9
        forced = ["bad", ["rot-k-whole-float", "rot-k-whole-float", "rot-k-numpy-int"][mix % 3], (mix // 3) % nd,
                  (mix // 16) % 3 != 0, [1, 3, -1, 2, 5, 4, 0, -6][(mix // 64) % 8], ["python", "numpy"][(mix // 1024) % 2]]
        steps.insert((mix // 4096) % (len(steps) + 1), forced)
    return {"g": g, "subs": draw(gen.index_boxes(g["n"], 2)), "g2": g2, "subs2": draw(gen.index_boxes(g2["n"], 2)),
            "vector": draw(st.booleans()), "seed": draw(st.integers(0, 2**31)), "mask": draw(gen.mask_spec(nd)),
            "alias": draw(st.sampled_from([0, 0, 0, 1, 2])),
            "steps": steps}


# --------------------------------------------------------------------------- state access


def region_state(r):
    return (np.asarray(r.pmin, dtype=float).copy(), np.asarray(r.pmax, dtype=float).copy(), tuple(r.units), tuple(r.dims))


def snap_region(r):
    return (r.pmin.tobytes(), r.pmax.tobytes(), str(r.pmin.dtype), tuple(r.units), tuple(r.dims), r.tolerance_factor)


def snap_mesh(m):
    return (snap_region(m.region), tuple(int(i) for i in m.n), m.bc,
            tuple((k, snap_region(s)) for k, s in m.subregions.items()))


def snap_field(f):
    return (snap_mesh(f.mesh), f.array.tobytes(), f.array.shape, f.valid.tobytes(),
            None if f.vdims is None else tuple(f.vdims), tuple(sorted((a, str(b)) for a, b in f.vdim_mapping.items())))


def check_region_inv(r, what):
    nd = len(r.pmin)
    if not np.all(np.asarray(r.pmin) < np.asarray(r.pmax)):
        raise Violation("invariant-pmin-lt-pmax", f"{what}: pmin={r.pmin} pmax={r.pmax}")
    require(len(r.dims) == nd and len(r.units) == nd and len(set(r.dims)) == nd, "invariant-names", what)
    require(r.ndim == nd, "invariant-ndim", what)


def check_mesh_inv(m, what):
    check_region_inv(m.region, what)
    n = np.asarray(m.n)
    require(n.shape == (m.region.ndim,) and np.issubdtype(n.dtype, np.integer) and np.all(n > 0), "invariant-n", f"{what}: {n}")
    edges = np.asarray(m.region.pmax, float) - np.asarray(m.region.pmin, float)
    if not np.allclose(np.asarray(m.cell, float) * n, edges, rtol=1e-12, atol=0):
        raise Violation("invariant-cell-times-n", f"{what}: cell*n={m.cell * n} edges={edges}")
    for name, s in m.subregions.items():
        check_region_inv(s, f"{what} subregion {name}")
        lo = (np.asarray(s.pmin, float) - np.asarray(m.region.pmin, float)) / np.asarray(m.cell, float)
        hi = (np.asarray(s.pmax, float) - np.asarray(m.region.pmin, float)) / np.asarray(m.cell, float)
        if (np.any(np.abs(lo - np.round(lo)) > 1e-6) or np.any(np.abs(hi - np.round(hi)) > 1e-6)
                or np.any(lo < -1e-6) or np.any(hi > n + 1e-6)):
            raise Violation("invariant-subregion-lattice", f"{what} subregion {name}: index box {lo}..{hi} in n={n}")
        if tuple(s.units) != tuple(m.region.units) or tuple(s.dims) != tuple(m.region.dims):
            raise Violation("invariant-subregion-names", f"{what} subregion {name}: units {s.units} dims {s.dims}; "
                                                         f"mesh {m.region.units} {m.region.dims}")


def check_field_inv(f, what):
    check_mesh_inv(f.mesh, what)
    n = tuple(int(i) for i in f.mesh.n)
    if f.array.shape != (*n, f.nvdim):
        raise Violation("invariant-array-shape", f"{what}: array {f.array.shape}, n={n}, nvdim={f.nvdim}")
    require(f.valid.dtype == np.bool_ and f.valid.shape == n, "invariant-valid", f"{what}: {f.valid.dtype} {f.valid.shape}")


# --------------------------------------------------------------------------- exact affine images


def frac(v):
    return [F(float(x)) for x in v]


def tol_for(lo, hi, R, extra=None):
    out = []
    for d in range(len(lo)):
        mag = max(abs(lo[d]), abs(hi[d]), abs(R[d]), abs(hi[d] - lo[d]), abs(lo[d] - R[d]), abs(hi[d] - R[d]))
        if extra is not None:
            mag = max(mag, abs(extra[d]))
        out.append(F(64 * EPS) * mag)
    return out


def box_close(r, lo, hi, tols, sig, what):
    for d in range(len(lo)):
        if abs(F(float(r.pmin[d])) - lo[d]) > tols[d] or abs(F(float(r.pmax[d])) - hi[d]) > tols[d]:
            raise Violation(sig, f"{what} axis {d}: [{r.pmin[d]!r}, {r.pmax[d]!r}] expected [{float(lo[d])!r}, {float(hi[d])!r}]")


def regions_equal(r1, r2, tols, what):
    for d in range(len(tols)):
        if abs(F(float(r1.pmin[d])) - F(float(r2.pmin[d]))) > 2 * tols[d] or abs(F(float(r1.pmax[d])) - F(float(r2.pmax[d]))) > 2 * tols[d]:
            raise Violation("inplace-differs-from-copy", f"{what} axis {d}: in-place [{r1.pmin[d]}, {r1.pmax[d]}] vs copy "
                                                         f"[{r2.pmin[d]}, {r2.pmax[d]}]")
    if tuple(r1.units) != tuple(r2.units) or tuple(r1.dims) != tuple(r2.dims):
        raise Violation("inplace-differs-from-copy-units", f"{what}: units {r1.units} vs {r2.units}")


def conv_arg(vals, argtype, nd, scalar_ok=False):
    if vals is None:
        return None
    if not isinstance(vals, list):
        return vals
    if nd == 1 and len(vals) == 1 and argtype in ("tuple", "numpy-scalars"):
        # on one-dimensional objects a plain number stands for the one-component vector / point (zero included)
        v = vals[0]
        if argtype == "tuple":
            return v
        return np.int64(v) if isinstance(v, int) else np.float64(v)
    if argtype == "numpy-scalars":
        # numpy floats, numpy ints where the entry is a whole number
        return tuple(np.int64(v) if isinstance(v, int) else np.float64(v) for v in vals)
    return {"tuple": tuple, "list": list, "array": np.array}[argtype](vals)


class Obj:
    """an object under test with its twin"""

    def __init__(self, kind, a, b):
        self.kind, self.a, self.b = kind, a, b

    def region_of(self, x):
        return x if self.kind == "region" else (x.region if self.kind == "mesh" else x.mesh.region)

    def mesh_of(self, x):
        return None if self.kind == "region" else (x if self.kind == "mesh" else x.mesh)

    def snap(self, x):
        return {"region": snap_region, "mesh": snap_mesh, "field": snap_field}[self.kind](x)

    def inv(self, x, what):
        {"region": check_region_inv, "mesh": check_mesh_inv, "field": check_field_inv}[self.kind](x, what)


def call(obj_kind, x, step, cell0, inplace):
    """perform the step through the public API; returns the resulting object"""
    kind = step[0]
    nd = len(cell0)
    if kind == "translate":
        vec = [v * c for v, c in zip(step[1], cell0)]
        arg = conv_arg(vec, step[2], nd)
        if obj_kind == "field":
            x.mesh.translate(arg, inplace=True)
            return x
        return x.translate(arg, **gen.nd_kw(inplace=inplace))
    if kind == "scale":
        fac = conv_arg(step[1], step[3], nd)
        ref = None if step[2] is None else conv_arg([v * c for v, c in zip(step[2], cell0)], step[3], nd)
        if obj_kind == "field":
            x.mesh.scale(fac, reference_point=ref, inplace=True)
            return x
        return x.scale(fac, **gen.nd_kw(reference_point=ref, inplace=inplace))
    if kind == "rot":
        r = x if obj_kind == "region" else (x.region if obj_kind == "mesh" else x.mesh.region)
        dims = r.dims
        ref = None if step[4] is None else conv_arg([v * c for v, c in zip(step[4], cell0)], step[5], nd)
        return x.rotate90(dims[step[1]], dims[step[2]], **gen.nd_kw(k=step[3], reference_point=ref, inplace=inplace))
    raise KeyError(kind)


def bad_call(obj_kind, x, step, inplace):
    bad, ax = step[1], step[2]
    r = x if obj_kind == "region" else (x.region if obj_kind == "mesh" else x.mesh.region)
    nd = r.ndim
    dims = r.dims
    tgt = x.mesh if obj_kind == "field" else x
    ip = True if obj_kind == "field" and not bad.startswith("rot") else inplace
    if bad == "rot-one-axis-unmapped":
        # a vector field one of whose two rotation-plane axes has no component: refused, object untouched
        if obj_kind != "field" or x.nvdim < 2 or nd < 2 or len(x.vdim_mapping) < 2:
            raise ValueError("not applicable to this object")  # counts as a refusal without modification
        old = dict(x.vdim_mapping)
        gone = dims[ax % 2]
        x.vdim_mapping = {lab: (None if a == gone else a) for lab, a in old.items()}
        try:
            return x.rotate90(dims[0], dims[1], inplace=inplace)
        finally:
            x.vdim_mapping = old
    if bad == "scale-zero":
        return tgt.scale(0, inplace=ip)
    if bad == "scale-zero-axis":
        fac = [2.0] * nd
        fac[ax] = 0
        return tgt.scale(tuple(fac), inplace=ip)
    if bad.startswith("scale-collapse"):
        tiny = 10.0 ** -step[4]
        fac = tiny if bad == "scale-collapse" else tuple(tiny if d == ax else 2.0 for d in range(nd))
        if step[6] == "far":
            ref = tuple(float(a) + step[5] * float(e) for a, e in zip(r.pmin, r.edges))
        elif step[6] == "centre":
            ref = tuple(float(c) for c in r.center)
        else:
            ref = None
        return tgt.scale(fac, reference_point=ref, inplace=ip)
    if bad == "scale-length":
        return tgt.scale((2.0,) * (nd + 1), inplace=ip)
    if bad == "scale-str":
        return tgt.scale("2", inplace=ip)
    if bad == "scale-none":
        return tgt.scale(None, inplace=ip)
    if bad == "scale-nested":
        return tgt.scale([[2.0] * nd], inplace=ip) if nd != 1 else tgt.scale([[2.0, 1.0]], inplace=ip)
    if bad == "scale-ref-length":
        return tgt.scale(2.0, reference_point=(0.0,) * (nd + 1), inplace=ip)
    if bad == "translate-length":
        return tgt.translate((1.0,) * (nd + 1), inplace=ip)
    if bad == "translate-str":
        return tgt.translate("abc"[:nd], inplace=ip)
    if bad == "translate-none":
        return tgt.translate(None, inplace=ip)
    rot_tgt = x
    if bad.startswith("rot-k-"):
        kk = step[4]
        if bad == "rot-k-whole-float":
            kk = float(kk) if step[5] == "python" else np.float64(kk)
        else:
            kk = np.int64(kk)
        a2, b2 = (dims[0], dims[1]) if nd >= 2 else (dims[0], dims[0])
        return rot_tgt.rotate90(a2, b2, k=kk, inplace=inplace)
    if bad == "rot-same-axis":
        return rot_tgt.rotate90(dims[ax], dims[ax], inplace=inplace)
    if bad == "rot-unknown-axis":
        return rot_tgt.rotate90(dims[ax], "nodim", inplace=inplace)
    if bad == "rot-float-k":
        if nd < 2:
            return rot_tgt.rotate90(dims[0], dims[0], k=1.5, inplace=inplace)
        return rot_tgt.rotate90(dims[0], dims[1], k=1.5, inplace=inplace)
    if bad == "rot-ref-length":
        if nd < 2:
            return rot_tgt.rotate90(dims[0], dims[0], reference_point=(0.0,) * (nd + 1), inplace=inplace)
        return rot_tgt.rotate90(dims[0], dims[1], reference_point=(0.0,) * (nd + 1), inplace=inplace)
    raise KeyError(bad)


def expected_box(lo, hi, step, R_default, cell0):
    """exact image of the box and the reference used"""
    kind = step[0]
    nd = len(lo)
    if kind == "translate":
        v = [F(float(a * c)) for a, c in zip(step[1], cell0)]
        return [lo[d] + v[d] for d in range(nd)], [hi[d] + v[d] for d in range(nd)], v
    if kind == "scale":
        fac = step[1] if isinstance(step[1], list) else [step[1]] * nd
        fac = [F(float(x)) for x in fac]
        R = R_default if step[2] is None else [F(float(a * c)) for a, c in zip(step[2], cell0)]
        p = [R[d] + fac[d] * (lo[d] - R[d]) for d in range(nd)]
        q = [R[d] + fac[d] * (hi[d] - R[d]) for d in range(nd)]
        return [min(a, b) for a, b in zip(p, q)], [max(a, b) for a, b in zip(p, q)], R
    if kind == "rot":
        R = R_default if step[4] is None else [F(float(a * c)) for a, c in zip(step[4], cell0)]
        blo, bhi = c12.image_box(lo, hi, R, step[1], step[2], step[3])
        return blo, bhi, R
    raise KeyError(kind)


def map_box(lo, hi, step, R, nd):
    """image of a box under the step; R = reference point (for translate: the translation vector)"""
    kind = step[0]
    if kind == "translate":
        return [lo[d] + R[d] for d in range(nd)], [hi[d] + R[d] for d in range(nd)]
    if kind == "scale":
        fac = step[1] if isinstance(step[1], list) else [step[1]] * nd
        fac = [F(float(v)) for v in fac]
        p = [R[d] + fac[d] * (lo[d] - R[d]) for d in range(nd)]
        q = [R[d] + fac[d] * (hi[d] - R[d]) for d in range(nd)]
        return [min(a, b) for a, b in zip(p, q)], [max(a, b) for a, b in zip(p, q)]
    return c12.image_box(lo, hi, R, step[1], step[2], step[3])


def within_budget(lo, hi, lo0, hi0, cell0, n):
    for d in range(len(lo)):
        c0 = F(float(cell0[d]))
        if max(abs(lo[d]), abs(hi[d])) > 100 * c0 * 3:
            return False
        cell = (hi[d] - lo[d]) / n[d]
        if cell < c0 / 50 or cell > c0 * 50:
            return False
    return True


def check_history(case):
    import discretisedfield as df

    g, g2 = case["g"], case["g2"]
    nd = len(g["n"])

    def mk_region():
        return gen.build_region(g)

    def mk_mesh():
        m = gen.build_mesh(g, subs=case["subs"])
        alias = case.get("alias", 0)
        if alias:
            # one Region object under two names, or the region object itself registered as a subregion: the mesh
            # must hold its own copies (an in-place step would otherwise reach the shared object twice)
            region = gen.build_region(g)
            sr = {nm: df.Region(p1=r_.pmin, p2=r_.pmax, dims=region.dims, units=region.units,
                                tolerance_factor=region.tolerance_factor) for nm, r_ in m.subregions.items()}
            if alias == 1 and sr:
                sr["dup"] = next(iter(sr.values()))
            else:
                sr["all"] = region
            m = df.Mesh(region=region, n=tuple(int(i) for i in g["n"]), subregions=sr)
        return m

    k = nd if case["vector"] and nd > 1 else 1
    arr0 = gen.make_array(case["seed"], (*g2["n"], k), "int")
    mask0 = gen.make_mask(case["mask"], g2["n"])

    def mk_field():
        return df.Field(gen.build_mesh(g2, subs=case["subs2"]), nvdim=k, value=arr0.copy(), valid=mask0.copy())

    objs = [Obj("region", mk_region(), mk_region()), Obj("mesh", mk_mesh(), mk_mesh()), Obj("field", mk_field(), mk_field())]
    cell0 = {"region": [float(c) for c in gen.lattice_of(g).cell], "mesh": [float(c) for c in gen.lattice_of(g).cell],
             "field": [float(c) for c in gen.lattice_of(g2).cell]}
    effective = 0
    inplace_after_effective = False
    retired = []  # sources of copying steps: must stay untouched whatever happens to the copies later
    carry = {}  # per object: bound on the divergence between the object and its twin accumulated so far
    for si, step in enumerate(case["steps"]):
        for okind, x, sn, when in retired:
            now = {"region": snap_region, "mesh": snap_mesh, "field": snap_field}[okind](x)
            if now != sn:
                raise Violation("copy-source-modified-later", f"{okind}: the source of the copying step {when} changed "
                                                              f"during a later step (shared state between copy and source)")
        kind = step[0]
        if kind == "rot" and (nd < 2 or step[1] == step[2]):
            continue
        stop_after_step = False
        for o in objs:
            c0 = cell0[o.kind]
            if kind == "bad" and step[1].startswith("rot-k-"):
                if nd < 2:
                    continue
                outcome = []
                for x, ip in ((o.a, step[3]), (o.b, not step[3])):
                    before = o.snap(x)
                    twin_ref = None
                    try:
                        res = bad_call(o.kind, x, step, ip)
                    except Exception:  # noqa: BLE001
                        if o.snap(x) != before:
                            raise Violation("rejected-but-modified", f"{o.kind} step {si} {step[1]} k={step[4]} as "
                                                                     f"{step[5]} inplace={ip}") from None
                        outcome.append("rejected")
                        continue
                    outcome.append("accepted")
                    # accepted: equals the rotation by the integer k; undo it so that the history can go on
                    y = x if ip else res
                    ref = x.rotate90(o.region_of(x).dims[0], o.region_of(x).dims[1], k=-int(step[4]), inplace=True) if ip \
                        else None
                    if ip and o.snap(x) != before:
                        # rotating back by the integer restores the pre-state (up to rounding of the corners)
                        ra, rb = o.region_of(x), None
                    del y, ref, twin_ref
                tag("whole-number-k:" + "/".join(outcome))
                if len(set(outcome)) != 1:
                    raise Violation("forms-disagree-on-k-type:" + step[1], f"{o.kind} step {si}: k={step[4]!r} as {step[5]} "
                                                                           f"-> {outcome} (in-place first: {step[3]})")
                if "accepted" in outcome:
                    stop_after_step = True  # the other objects still get this step; the modelled history ends then
                continue
            if kind == "bad" and step[1].startswith("scale-collapse"):
                # the image is degenerate only through rounding: both forms must agree (reject and keep the
                # object, or accept with pmin < pmax); an accepted step ends the modelled history
                # ... unless the image edge is about ONE unit in the last place of the image coordinates: there "collapsed"
                # and "resolved" are a matter of the last rounding, and every later test (divisibility of a subregion into
                # cells of 1 ulp) is noise: the two forms need not agree there (DESIGN section 3); a refusal still has to
                # leave the object untouched and an accepted result still has to be a valid object
                r0 = o.region_of(o.a)
                tiny_ = 10.0 ** -step[4]
                axes_ = range(r0.ndim) if step[1] == "scale-collapse" else [step[2]]
                if step[6] == "far":
                    ref_ = [float(a_) + step[5] * float(e_) for a_, e_ in zip(r0.pmin, r0.edges)]
                elif step[6] == "centre":
                    ref_ = [float(c_) for c_ in r0.center]
                else:
                    ref_ = [float(c_) for c_ in r0.center]
                on_threshold = False
                for d_ in axes_:
                    img_edge = float(r0.edges[d_]) * tiny_
                    mag_ = max(abs(ref_[d_]), img_edge, 1e-300)
                    ratio = img_edge / (np.finfo(float).eps * mag_)
                    if 1 / 64 < ratio < 64:
                        on_threshold = True
                if on_threshold:
                    tag("collapse:on-the-rounding-threshold")
                outcome = []
                for x, ip in ((o.a, step[3]), (o.b, not step[3])):
                    before = o.snap(x)
                    try:
                        res = bad_call(o.kind, x, step, ip)
                    except Exception:  # noqa: BLE001
                        if o.snap(x) != before:
                            raise Violation("rejected-but-modified", f"{o.kind} step {si} {step[1]} inplace={ip}") from None
                        outcome.append("rejected")
                        continue
                    eff_ip = True if o.kind == "field" else ip
                    y = x if eff_ip else res
                    ry = o.region_of(y)
                    if not bool(np.all(np.asarray(ry.pmin) < np.asarray(ry.pmax))):
                        raise Violation("degenerate-accepted:" + step[1],
                                        f"{o.kind} step {si} inplace={eff_ip} factor 1e-{step[4]} ref {step[6]}: accepted, region "
                                        f"now {ry.pmin}..{ry.pmax}")
                    if o.kind != "region":
                        my = o.mesh_of(y)
                        if not bool(np.all(np.asarray(my.cell, dtype=float) > 0)):
                            raise Violation("degenerate-accepted:" + step[1] + ":cell", f"{o.kind}: cell {my.cell}")
                    outcome.append("accepted")
                tag("collapse:" + "/".join(outcome))
                if o.kind != "field" and len(set(outcome)) != 1 and not on_threshold:
                    raise Violation("forms-disagree-on-degenerate:" + step[1],
                                    f"{o.kind} step {si}: in-place={step[3]} first -> {outcome}")
                if "accepted" in outcome:
                    return
                continue
            if kind == "bad":
                for x, ip in ((o.a, step[3]), (o.b, not step[3])):
                    before = o.snap(x)
                    try:
                        bad_call(o.kind, x, step, ip)
                    except Exception:  # noqa: BLE001
                        if o.snap(x) != before:
                            raise Violation("rejected-but-modified", f"{o.kind} step {si} {step[1]} inplace={ip}") from None
                        continue
                    sig = "degenerate-accepted" if step[1].startswith("scale-zero") else "malformed-accepted"
                    raise Violation(f"{sig}:{step[1]}", f"{o.kind} step {si} inplace={ip}: accepted; region now "
                                                        f"{o.region_of(x).pmin}..{o.region_of(x).pmax}")
                continue
            # ---- valid step: exact expectation from the pre-state of o.a
            ra = o.region_of(o.a)
            lo, hi = frac(ra.pmin), frac(ra.pmax)
            centre = [(lo[d] + hi[d]) / 2 for d in range(nd)]
            n_pre = [1] * nd if o.kind == "region" else [int(i) for i in o.mesh_of(o.a).n]
            elo, ehi, R = expected_box(lo, hi, step, centre, c0)
            if not within_budget(elo, ehi, lo, hi, c0, n_pre if kind != "rot" or step[3] % 2 == 0 else
                                 [n_pre[step[2]] if d == step[1] else n_pre[step[1]] if d == step[2] else n_pre[d] for d in range(nd)]):
                tag("skipped-budget")
                continue
            if o.kind == "region":
                tag(f"step-{kind}")
            tols = tol_for(lo, hi, R if kind != "translate" else [F(0)] * nd, extra=R if kind == "translate" else None)
            tols = [max(t, tt) for t, tt in zip(tols, tol_for(elo, ehi, [F(0)] * nd))]
            tolf = max(tols)
            tols = [tolf if kind == "rot" else t for t in tols]
            # the twin was advanced with the other form through every earlier step and differs from this object by
            # the rounding of those steps (each bounded by that step's tolerance, which may stem from a far
            # reference point or an earlier, larger coordinate): carry it forward, scaled by this step's factors
            growth = F(1)
            if kind == "scale":
                fs = step[1] if isinstance(step[1], list) else [step[1]]
                growth = max(abs(F(x)) for x in fs)
                growth = max(growth, F(1))
            carried = carry.get(o.kind, F(0)) * growth
            carry[o.kind] = carried + 2 * tolf
            tols = [t + carried for t in tols]
            units_pre = list(ra.units)
            subs_pre = {}
            if o.kind != "region":
                subs_pre = {nm: (frac(s.pmin), frac(s.pmax)) for nm, s in o.mesh_of(o.a).subregions.items()}
            farr = fvalid = None
            if o.kind == "field":
                farr, fvalid = o.a.array.copy(), o.a.valid.copy()
            # perform: o.a with the drawn form, twin with the other form
            results = []
            for x, ip in ((o.a, step[-1]), (o.b, not step[-1])):
                before = o.snap(x)
                r = call(o.kind, x, step, c0, ip)
                field_mesh_op = o.kind == "field" and kind != "rot"
                if ip or field_mesh_op:
                    if r is not x:
                        raise Violation("inplace-not-self", f"{o.kind} step {si} {kind}")
                else:
                    if r is x:
                        raise Violation("copy-returned-self", f"{o.kind} step {si} {kind}")
                    if o.snap(x) != before:
                        raise Violation("copy-modified-source", f"{o.kind} step {si} {kind}: the copying form changed the source")
                    retired.append((o.kind, x, before, si))
                results.append(r)
            o.a, o.b = results
            for x, nm in ((o.a, "object"), (o.b, "twin")):
                what = f"{o.kind} {nm} after step {si} {step}"
                o.inv(x, what)
                rx = o.region_of(x)
                box_close(rx, elo, ehi, tols, f"affine-{kind}", what)
                want_units = list(units_pre)
                want_n = list(n_pre)
                if kind == "rot" and step[3] % 2 == 1:
                    a_, b_ = step[1], step[2]
                    want_units[a_], want_units[b_] = want_units[b_], want_units[a_]
                    want_n[a_], want_n[b_] = want_n[b_], want_n[a_]
                if list(rx.units) != want_units:
                    raise Violation("units-after-step", f"{what}: {rx.units} expected {want_units}")
                if o.kind != "region":
                    m = o.mesh_of(x)
                    require([int(i) for i in m.n] == want_n, "n-after-step", f"{what}: {m.n} expected {want_n}")
                    require(list(m.subregions) == list(subs_pre), "subregion-names-after-step", what)
                    for nm2, (slo, shi) in subs_pre.items():
                        sl, sh = map_box(slo, shi, step, R, nd)
                        box_close(m.subregions[nm2], sl, sh, tols, f"affine-subregion-{kind}", f"{what} subregion {nm2}")
                if o.kind == "field":
                    if kind == "rot":
                        coa = {d: d for d in range(nd)} if k > 1 else {}
                        exp = c12.rotate_components(c12.index_map(farr, step[1], step[2], step[3]), coa, step[1], step[2], step[3], False)
                        require(x.array.shape == exp.shape and np.allclose(x.array, exp, rtol=1e-12, atol=1e-12), "field-values-after-rot", what)
                        require(np.array_equal(x.valid, c12.index_map(fvalid, step[1], step[2], step[3])), "field-valid-after-rot", what)
                    else:
                        require(np.array_equal(x.array, farr) and np.array_equal(x.valid, fvalid), "field-values-changed", what)
            # object == twin
            regions_equal(o.region_of(o.a), o.region_of(o.b), tols, f"{o.kind} after step {si} {step}")
            if o.kind != "region":
                ma, mb = o.mesh_of(o.a), o.mesh_of(o.b)
                require(np.array_equal(ma.n, mb.n), "inplace-differs-from-copy-n", f"{ma.n} vs {mb.n}")
                for nm2 in ma.subregions:
                    regions_equal(ma.subregions[nm2], mb.subregions[nm2], tols, f"{o.kind} subregion {nm2} after step {si}")
            if o.kind == "field":
                require(np.allclose(o.a.array, o.b.array, rtol=1e-12, atol=1e-12) and np.array_equal(o.a.valid, o.b.valid),
                        "inplace-differs-from-copy-values")
        if stop_after_step:
            return
        if kind != "bad":
            if effective >= 1 and step[-1]:
                inplace_after_effective = True
            effective += 1
    for okind, x, sn, when in retired:
        now = {"region": snap_region, "mesh": snap_mesh, "field": snap_field}[okind](x)
        if now != sn:
            raise Violation("copy-source-modified-later", f"{okind}: the source of the copying step {when} changed later")
    tag(f"effective={min(effective, 6)}")
    if effective >= 3 and inplace_after_effective:
        tag("nontrivial-history")


def nontrivial(case):
    steps = [s for s in case["steps"] if s[0] != "bad"]
    return len(steps) >= 3 and any(s[-1] for s in steps[1:])


SUBS = [
    Sub("history", check_history, history_case(8), nontrivial=nontrivial, quick=300, thorough=2500),
    Sub("history-long", check_history, history_case(12), nontrivial=nontrivial, quick=80, thorough=1500),
    Sub("history-k-forms", check_history, history_case(3, kforms=True), nontrivial=lambda c: True, quick=150, thorough=1500),
]


# objects with a history (reads that may fill caches, in-place writes): observables equal those of a fresh object
from pbt import aged as _aged  # noqa: E402

SUBS.append(_aged.sub("C13", quick=250))
ASSUMPTIONS = list(ASSUMPTIONS) + ["aged sub-property: library results are a function of the public primary state "
                                   "(corners, n, names, units, bc, subregions, array, validity, labels, mapping, unit)"]

"""C04 - derivatives: exact on low-degree polynomials, linear, blind across gaps."""
import itertools

import numpy as np
from hypothesis import strategies as st

from pbt import gen
from pbt.core import Reject, Sub, Violation, require, tag

EXHAUSTIVE = True
LEVEL = "exploration"
RULE = (
    "complete enumeration of all 2^L validity patterns for line lengths L=1..10 (12 thorough) x order 1,2 x "
    "open/periodic x 2 cell sizes on 1-d meshes (each configuration: monomial exactness per maximal run - runs "
    "may wrap on a ring -, zero on short runs and invalid cells, locality, linearity, restrict2valid=False, "
    "ring formula and cyclic-shift commutation), plus Hypothesis-generated embeddings of lines in 1-4-d meshes "
    "(every axis, nvdim 1-4, anisotropic cells, random masks, bc subsets); non-trivial = a pattern with an "
    "invalid cell and a run of >= 2 cells (enumeration) / ndim >= 2 (embedding); distinct = SHA-1 of the case"
)
ASSUMPTIONS = [
    "no reference stencil: the oracle is the property text (exactness on monomials per run, linearity, locality)",
    "tolerance 1e-9 * max|values| / h^order for exactness, 1e-12 relative for linearity and line independence",
    "Python floats (not numpy scalars) are used as scalar operands so that validity is kept",
]


def runs_of(valid, periodic):
    """maximal runs of valid cells as lists of cell indices (ring-aware); None if whole ring valid"""
    L = len(valid)
    if all(valid):
        return None if periodic else [list(range(L))]
    start = 0
    if periodic:
        start = next(i for i in range(L) if not valid[i])
    order = [(start + i) % L for i in range(L)]
    runs, cur = [], []
    for i in order:
        if valid[i]:
            cur.append(i)
        elif cur:
            runs.append(cur)
            cur = []
    if cur:
        runs.append(cur)
    return runs


def mk_field(values, valid, h, periodic, nvdim=1):
    import discretisedfield as df

    L = len(valid)
    mesh = df.Mesh(p1=0.0, p2=L * h, n=L, bc="x" if periodic else "")
    arr = np.asarray(values, dtype=float).reshape(L, nvdim)
    return df.Field(mesh, nvdim=nvdim, value=np.array(arr, copy=True), valid=np.asarray(valid, dtype=bool))


def dmax(m, order):
    if order == 1:
        return 2 if m >= 3 else 1
    return 3 if m >= 4 else 2


def check_pattern(case):
    L, bits, order, periodic, h = case["L"], case["bits"], case["order"], case["periodic"], case["h"]
    valid = [bool((bits >> i) & 1) for i in range(L)]
    runs = runs_of(valid, periodic)
    rng = np.random.default_rng(bits * 64 + L * 4 + order * 2 + int(periodic))
    scale_ex = lambda vmax: 1e-9 * max(vmax, 1e-300) / h**order  # noqa: E731
    varr = np.array(valid)
    if runs is not None and any(len(r) >= 2 for r in runs) and not all(valid):
        tag("nontrivial-pattern")
    if runs is not None and periodic and any(r[0] > r[-1] for r in runs if len(r) > 1):
        tag("wrapped-run")

    # ---- exactness on monomials, per run (every run relative to its own first cell)
    if runs is not None:
        for d in range(0, 4):
            vals = np.full(L, 7.25)  # junk in invalid cells
            expect = np.zeros(L)
            asserted = np.zeros(L, dtype=bool)
            for r in runs:
                m = len(r)
                for k, i in enumerate(r):
                    vals[i] = (k * h) ** d
                if m <= order:
                    for i in r:
                        expect[i] = 0.0
                        asserted[i] = True
                elif d <= dmax(m, order):
                    for k, i in enumerate(r):
                        if order == 1:
                            expect[i] = d * (k * h) ** (d - 1) if d >= 1 else 0.0
                        else:
                            expect[i] = d * (d - 1) * (k * h) ** (d - 2) if d >= 2 else 0.0
                        asserted[i] = True
            asserted |= ~varr  # invalid cells are zero
            f = mk_field(vals, valid, h, periodic)
            out = f.diff("x", order=order).array[:, 0]
            tol = scale_ex(float(np.max(np.abs(vals))))
            bad = asserted & (np.abs(out - expect) > tol)
            if bad.any():
                i = int(np.argmax(bad))
                if not valid[i]:
                    sig = "invalid-cell-nonzero"
                else:
                    r = next(r for r in runs if i in r)
                    wrapped = periodic and r[0] > r[-1]
                    if len(r) <= order:
                        sig = "short-run-nonzero"
                    elif wrapped:
                        sig = "wrapped-run-inexact"
                    else:
                        sig = f"inexact-order{order}"
                raise Violation(sig, f"L={L} valid={''.join('T' if v else 'F' for v in valid)} order={order} "
                                     f"periodic={periodic} degree={d}: cell {i} got {out[i]!r} expected {expect[i]!r}")
            if d == 0:
                # metadata
                res = f.diff("x", order=order)
                require(res.mesh == f.mesh and np.array_equal(res.valid, f.valid) and res.nvdim == 1, "metadata")
    else:
        # whole ring valid: centred difference with wrap-around
        vals = rng.integers(-9, 10, size=L).astype(float)
        f = mk_field(vals, valid, h, True)
        out = f.diff("x", order=order).array[:, 0]
        nxt, prv = np.roll(vals, -1), np.roll(vals, 1)
        expect = (nxt - prv) / (2 * h) if order == 1 else (nxt - 2 * vals + prv) / h**2
        tol = 1e-12 * 40 / h**order
        if np.any(np.abs(out - expect) > tol):
            i = int(np.argmax(np.abs(out - expect)))
            raise Violation("ring-centred", f"L={L} order={order}: cell {i} got {out[i]!r} expected {expect[i]!r}")

    # ---- random data: locality, linearity, restrict2valid=False, cyclic shifts
    a = rng.integers(-9, 10, size=L).astype(float)
    b = rng.integers(-9, 10, size=L).astype(float)
    fa = mk_field(a, valid, h, periodic)
    da = fa.diff("x", order=order).array[:, 0]
    # invalid cells and short runs are zero for arbitrary data too
    if np.any(da[~varr] != 0):
        raise Violation("invalid-cell-nonzero", f"L={L} bits={bits} order={order} periodic={periodic}")
    for r in runs or []:
        if len(r) <= order and np.any(da[r] != 0):
            raise Violation("short-run-nonzero", f"L={L} bits={bits} order={order} periodic={periodic} run={r}")
    # locality: redraw everything outside a run
    for r in (runs or []):
        a2 = a + rng.integers(1, 50, size=L)
        a2[r] = a[r]
        d2 = mk_field(a2, valid, h, periodic).diff("x", order=order).array[:, 0]
        if not np.array_equal(d2[r], da[r]):
            raise Violation("not-local", f"L={L} bits={bits} order={order} periodic={periodic}: results in run {r} "
                                         f"depend on values outside it")
    # linearity
    alpha, beta = float(rng.integers(-4, 5)), float(rng.integers(1, 4)) / 2
    fb = mk_field(b, valid, h, periodic)
    db = fb.diff("x", order=order).array[:, 0]
    comb = (alpha * fa + beta * fb).diff("x", order=order).array[:, 0]
    tol = 1e-12 * 100 / h**order
    if np.any(np.abs(comb - (alpha * da + beta * db)) > tol):
        raise Violation("nonlinear", f"L={L} bits={bits} order={order} periodic={periodic}")
    # homogeneity under powers of two is exact in floating point (no rounding, no under- or overflow here): tiny and
    # huge values are differentiated like any others
    for e in (-200, -80, -30, 40, 300):
        ds = mk_field(a * 2.0**e, valid, h, periodic).diff("x", order=order).array[:, 0]
        if not np.array_equal(ds, da * 2.0**e):
            raise Violation("not-homogeneous", f"L={L} bits={bits} order={order} periodic={periodic}: diff(2^{e} f) differs "
                                               f"from 2^{e} diff(f): {ds[np.argmax(ds != da * 2.0**e)]!r}")
    # restrict2valid=False == all-true mask, validity kept
    res = fa.diff("x", order=order, restrict2valid=False)
    full = mk_field(a, [True] * L, h, periodic).diff("x", order=order).array[:, 0]
    if not np.array_equal(res.array[:, 0], full):
        raise Violation("unrestricted", f"L={L} bits={bits} order={order} periodic={periodic}: restrict2valid=False "
                                        f"differs from an all-valid field")
    require(np.array_equal(res.valid, varr), "unrestricted-valid")
    # ring: commutes with cyclic shifts of data and mask
    if periodic and L > 1:
        for s in sorted({1, L // 2, L - 1}):
            if s <= 0:
                continue
            fs = mk_field(np.roll(a, s), list(np.roll(varr, s)), h, True)
            ds = fs.diff("x", order=order).array[:, 0]
            if np.any(np.abs(ds - np.roll(da, s)) > tol):
                sig = "ring-shift" if all(valid) else "ring-shift-masked"
                raise Violation(sig, f"L={L} valid={''.join('T' if v else 'F' for v in valid)} order={order}: "
                                     f"shift by {s} does not commute")


def enum_patterns(tier):
    top = 10 if tier == "quick" else 12
    for L in range(1, top + 1):
        for bits in range(2**L):
            for order in (1, 2):
                for periodic in (False, True):
                    yield {"L": L, "bits": bits, "order": order, "periodic": periodic,
                           "h": 0.3 if (bits + L) % 2 else 2.0**-7}


def nt_pattern(case):
    L, bits = case["L"], case["bits"]
    valid = [bool((bits >> i) & 1) for i in range(L)]
    if all(valid):
        return False
    runs = runs_of(valid, case["periodic"])
    return any(len(r) >= 2 for r in runs)


# --------------------------------------------------------------------------- embedding in n-d meshes


@st.composite
def embed_case(draw):
    g = draw(gen.geom(nmax=6, exps=(-9, 3), maxcells=300, names=True))
    nd = len(g["n"])
    dims = gen.dims_of(g)
    single = [d for d in dims if len(d) == 1 and d.islower()]
    bck = draw(st.integers(0, 5))
    axis = draw(st.integers(0, nd - 1))
    if bck <= 2:
        # the differentiated axis is periodic whenever its name allows it (bck 0, 1), others at random
        bc = "".join(d for d in single if (d == dims[axis] and bck <= 1) or draw(st.booleans()))
    elif bck == 3:
        bc = draw(st.sampled_from(["neumann", "dirichlet"]))  # not periodic, whatever the dimensions are called
    else:
        bc = ""
    return {"g": g, "nvdim": draw(gen.nvdim_strategy()), "seed": draw(st.integers(0, 2**31)),
            "mask": draw(gen.mask_spec(nd)), "axis": axis, "order": draw(st.integers(1, 2)),
            "bc": bc, "r2v": draw(st.booleans()), "vdims": None, "unit": draw(st.sampled_from(gen.FIELD_UNITS))}


def check_embed(case):
    import discretisedfield as df

    g = case["g"]
    n = tuple(g["n"])
    nd, nvdim, ax, order = len(n), case["nvdim"], case["axis"], case["order"]
    mesh = gen.build_mesh(g, bc=case["bc"])
    dims = gen.dims_of(g)
    arr = gen.make_array(case["seed"], (*n, nvdim), "int")
    mask = gen.make_mask(case["mask"], n)
    f = df.Field(mesh, nvdim=nvdim, value=np.array(arr, copy=True), valid=np.array(mask, copy=True), unit=case["unit"])
    periodic = case["bc"] not in ("neumann", "dirichlet") and dims[ax] in case["bc"]
    tag(f"ndim={nd}")
    tag("periodic" if periodic else "open")
    res = f.diff(dims[ax], order=order, restrict2valid=case["r2v"])
    require(res.mesh == mesh, "metadata-mesh")
    require(res.nvdim == nvdim and res.array.shape == arr.shape, "metadata-shape")
    require(res.unit == f.unit, "metadata-unit", f"{res.unit} vs {f.unit}")
    require((res.vdims is None and f.vdims is None) or list(res.vdims) == list(f.vdims), "metadata-labels")
    require(dict(res.vdim_mapping) == dict(f.vdim_mapping), "metadata-mapping")
    require(np.array_equal(res.valid, mask), "metadata-valid")
    require(np.array_equal(f.array, arr), "operand-modified")
    h = float(mesh.cell[ax])
    L = n[ax]
    others = [range(k) for i, k in enumerate(n) if i != ax]
    # far-away meshes: the cell size itself is only known to eps * |coordinate| / cell
    far = max(abs(float(mesh.region.pmin[ax])), abs(float(mesh.region.pmax[ax]))) / h
    tol = (1e-12 + 64 * 2.3e-16 * far) * 40 / h**order
    for rest in itertools.product(*others):
        idx = list(rest)
        idx.insert(ax, slice(None))
        vline = mask[tuple(idx)] if case["r2v"] else np.ones(L, dtype=bool)
        for c in range(nvdim):
            line = arr[tuple(idx + [c])]
            ref = mk_field(line, list(vline), h, periodic).diff("x", order=order).array[:, 0]
            got = res.array[tuple(idx + [c])]
            if np.any(np.abs(got - ref) > tol):
                raise Violation("line-independence", f"axis {ax} line {rest} component {c}: {got} vs 1-d result {ref}")
    # the same (integer) numbers held in another storage type have the same derivative
    st_ = [None, np.int64, np.int16, np.float32, np.complex128][case["seed"] % 5]
    if st_ is not None:
        # complex storage: the numbers times (1 + 0.5i) - by linearity the derivative times (1 + 0.5i)
        zf = (1 + 0.5j) if st_ is np.complex128 else 1
        f2 = df.Field(mesh, nvdim=nvdim, value=arr.astype(st_) * zf, dtype=st_, valid=np.array(mask, copy=True), unit=case["unit"])
        res2 = f2.diff(dims[ax], order=order, restrict2valid=case["r2v"])
        rtol = 1e-5 if st_ is np.float32 else 1e-12
        want2 = res.array * zf
        if not np.allclose(res2.array, want2, rtol=rtol, atol=rtol * float(np.max(np.abs(want2)) + 1e-300)):
            i = tuple(np.argwhere(~np.isclose(res2.array, want2, rtol=rtol))[0])
            raise Violation("storage-type-dependence", f"the derivative of the same numbers stored as {np.dtype(st_).name} "
                                                       f"differs: {res2.array[i]} vs {want2[i]} at {i}")
        tag(f"storage={np.dtype(st_).name}")


SUBS = [
    Sub("patterns", check_pattern, enum=enum_patterns, nontrivial=nt_pattern,
        enum_shards=lambda tier: 12 if tier == "quick" else 16),
    Sub("embed", check_embed, embed_case(), nontrivial=lambda c: len(c["g"]["n"]) >= 2, quick=250, thorough=1500),
]


# objects with a history (reads that may fill caches, in-place writes): observables equal those of a fresh object
from pbt import aged as _aged  # noqa: E402

SUBS.append(_aged.sub("C04", quick=250))
ASSUMPTIONS = list(ASSUMPTIONS) + ["aged sub-property: library results are a function of the public primary state "
                                   "(corners, n, names, units, bc, subregions, array, validity, labels, mapping, unit)"]

"""C15 - setting a norm rescales non-zero vectors only; orientation is the unit field."""
import numpy as np
from hypothesis import strategies as st

from pbt import gen
from pbt.core import Reject, Sub, Violation, require, tag

RULE = (
    "Hypothesis-generated fields (nvdim 1-4, 1-3-d meshes) whose per-cell vectors have lengths 10^e, e in [-6, 150], "
    "times random unit directions, with exact zeros in a drawn subset of cells; norm specification constant / per-cell "
    "array / scalar array / callable / array with zeros, through the constructor or the setter, optionally after the "
    "norm was read and the values were rewritten in place, followed by a value update; oracle: per-cell length and "
    "direction reference; non-trivial = >= 1 zero cell and >= 2 distinct magnitudes"
)
ASSUMPTIONS = [
    "lengths keep a decade's distance from the library's absolute 1e-8 threshold (>= 1e-6 or exactly 0)",
    "length rtol 1e-12, direction cosine >= 1 - 1e-12",
]


@st.composite
def norm_case(draw):
    g = draw(gen.geom(ndim=(1, 3), nmax=4, exps=(-9, 2), big_offsets=False, maxcells=64, tol=False))
    nd = len(g["n"])
    k = draw(st.integers(1, 4))
    return {"g": g, "k": k, "seed": draw(st.integers(0, 2**31)),
            "exps": draw(st.lists(st.integers(-6, 150), min_size=1, max_size=5)),
            "zero_frac": draw(st.sampled_from([0.0, 0.2, 0.5])),
            # non-zero lengths a decade or more below the library's absolute 1e-8 threshold
            "tiny_frac": draw(st.sampled_from([0.0, 0.0, 0.25])),
            "spec": draw(st.sampled_from(["const", "array", "scalar-array", "callable", "array-with-zeros", "int-const"])),
            "target_exp": draw(st.integers(-6, 6)), "via": draw(st.sampled_from(["init", "setter"])),
            "warm": draw(st.sampled_from(["none", "norm", "orientation", "valid-norm"])),
            "vdims": draw(gen.vdims_strategy(k)), "unit": draw(st.sampled_from(gen.FIELD_UNITS)),
            "mask": draw(gen.mask_spec(nd)), "near_target": draw(st.integers(0, 4)) == 0}


def make_vectors(case, seed_shift=0):
    n = tuple(case["g"]["n"])
    k = case["k"]
    rng = np.random.default_rng(case["seed"] + seed_shift)
    dirs = rng.normal(size=(*n, k))
    dirs /= np.linalg.norm(dirs, axis=-1, keepdims=True)
    e = np.array(case["exps"])[rng.integers(0, len(case["exps"]), size=n)]
    lens = 10.0**e * rng.uniform(1, 9.9, size=n)
    if case.get("near_target") and seed_shift == 0:
        # all lengths within 1e-6 relative of the constant that will be requested as norm
        lens = 1.5 * 10.0 ** case["target_exp"] * (1 + rng.uniform(-1e-6, 1e-6, size=n))
    if case.get("tiny_frac") and not (case.get("near_target") and seed_shift == 0):
        tiny = rng.random(n) < case["tiny_frac"]
        lens[tiny] = 10.0 ** rng.uniform(-12, -9.05, size=n)[tiny]
    zero = rng.random(n) < case["zero_frac"]
    lens[zero] = 0.0
    return dirs * lens[..., np.newaxis], lens, dirs


def norm_spec(case, lat, n):
    rng = np.random.default_rng(case["seed"] + 17)
    t = 10.0 ** case["target_exp"]
    kind = case["spec"]
    if kind == "const":
        return t * 1.5, np.full(n, t * 1.5)
    if kind == "int-const":
        return 3, np.full(n, 3.0)
    if kind == "array":
        a = t * rng.uniform(0.5, 2, size=n)
        return a[..., np.newaxis].copy(), a
    if kind == "scalar-array":
        a = t * rng.uniform(0.5, 2, size=n)
        return a.copy(), a
    if kind == "array-with-zeros":
        a = t * rng.uniform(0.5, 2, size=n)
        a[rng.random(n) < 0.4] = 0.0
        return a[..., np.newaxis].copy(), a
    # callable of position: linear in the first coordinate, positive
    p0 = float(lat.pmin[0])
    c0 = float(lat.cell[0])
    fn = lambda p: t * (1.0 + (np.atleast_1d(p)[0] - p0) / c0)  # noqa: E731
    a = np.empty(n)
    for idx in lat.indices():
        a[idx] = t * (1.0 + (float(lat.centre(idx)[0]) - p0) / c0)
    return fn, a


def check_lengths(f, vec, lens, dirs, target, what):
    arr = f.array
    got = np.linalg.norm(arr, axis=-1)
    nz = lens > 0
    if np.any(arr[~nz] != 0):
        raise Violation("zero-cell-changed", f"{what}: a cell that was exactly zero is now {arr[~nz][0]}")
    want = np.where(nz, target, 0.0)
    bad = np.abs(got - want) > 1e-12 * np.maximum(want, 1e-300)
    if bad.any():
        i = tuple(np.argwhere(bad)[0])
        raise Violation("length-after-setting-norm", f"{what}: cell {i} has length {got[i]!r}, target {want[i]!r} "
                                                     f"(previous length {lens[i]!r})")
    sel = nz & (want > 0)
    if sel.any():
        cos = np.sum(arr[sel] * dirs[sel], axis=-1) / got[sel]
        if np.any(cos < 1 - 1e-12):
            raise Violation("direction-changed", f"{what}: min cosine {cos.min()}")


def check_norm(case):
    import discretisedfield as df

    g = case["g"]
    lat = gen.lattice_of(g)
    n = tuple(g["n"])
    k = case["k"]
    mesh = gen.build_mesh(g)
    vec, lens, dirs = make_vectors(case)
    spec, target = norm_spec(case, lat, n)
    tag(case["spec"])
    tag(case["via"])
    kw = {"vdims": list(case["vdims"])} if case["vdims"] else {}
    mask = gen.make_mask(case["mask"], n)
    if case["via"] == "init":
        f = df.Field(mesh, nvdim=k, value=vec.copy(), norm=spec, unit=case["unit"], valid=mask, **kw)
    else:
        f = df.Field(mesh, nvdim=k, value=vec.copy(), unit=case["unit"], valid=mask, **kw)
        # ---- getter
        nf = f.norm
        require(nf.nvdim == 1 and nf.mesh == mesh and nf.array.shape == (*n, 1), "norm-shape")
        require(nf.unit == f.unit, "norm-unit", f"{nf.unit} vs {f.unit}")
        require(np.array_equal(nf.valid, mask), "norm-valid")
        if not np.allclose(nf.array[..., 0], lens, rtol=1e-12, atol=0):
            raise Violation("norm-value", "norm differs from the Euclidean length")
        # ---- orientation
        o = f.orientation
        ol = np.linalg.norm(o.array, axis=-1)
        nz = lens > 1e-7  # generated lengths are 0, <= 1e-9 ("count as zero there") or >= 1e-6
        if (lens > 0).any() and (~nz & (lens > 0)).any():
            tag("below-threshold-lengths")
        if np.any(o.array[~nz] != 0):
            i = tuple(np.argwhere(~nz & np.any(o.array != 0, axis=-1))[0])
            raise Violation("orientation-zero-cells", f"cell {i} of length {lens[i]!r} has orientation {o.array[i]}")
        if nz.any() and np.any(np.abs(ol[nz] - 1) > 1e-12):
            i = tuple(np.argwhere(nz & (np.abs(ol - 1) > 1e-12))[0])
            raise Violation("orientation-not-unit", f"cell {i}: |orientation| = {ol[i]!r} for a vector of length {lens[i]!r}")
        require(np.array_equal(o.valid, mask) and o.nvdim == k, "orientation-metadata")
        rec = (o * nf).array
        if not np.allclose(rec[nz], vec[nz], rtol=1e-12, atol=0) or np.any(rec[~nz] != 0):
            raise Violation("orientation-times-norm", "orientation * norm does not reproduce the field")
        require(np.array_equal(f.array, vec), "getter-changed-values")
        f.norm = spec
    check_lengths(f, vec, lens, dirs, target, f"norm={case['spec']} via {case['via']}")
    require(np.array_equal(f.valid, mask), "norm-setter-changed-valid")
    # ---- later value updates do not re-apply the earlier norm
    vec2, lens2, dirs2 = make_vectors(case, 5)
    f.update_field_values(vec2.copy())
    if not np.allclose(np.linalg.norm(f.array, axis=-1), lens2, rtol=1e-12, atol=0) or not np.array_equal(f.array, vec2):
        raise Violation("norm-reapplied", "after update_field_values the lengths are not those of the new values")
    if not np.allclose(f.norm.array[..., 0], lens2, rtol=1e-12, atol=0):
        raise Violation("norm-stale-after-update", "field.norm does not reflect the updated values")


def check_inplace_write(case):
    """norm / orientation are computed from the current values, also after in-place writes into field.array"""
    import discretisedfield as df

    g = case["g"]
    lat = gen.lattice_of(g)
    n = tuple(g["n"])
    k = case["k"]
    mesh = gen.build_mesh(g)
    vec, lens, dirs = make_vectors(case)
    f = df.Field(mesh, nvdim=k, value=vec.copy(), valid="norm" if case["warm"] == "valid-norm" else True)
    tag("warm-" + case["warm"])
    if case["warm"] == "norm":
        f.norm
    elif case["warm"] == "orientation":
        f.orientation
    vec2, lens2, dirs2 = make_vectors(case, 9)
    f.array[...] = vec2
    if not np.allclose(f.norm.array[..., 0], lens2, rtol=1e-12, atol=0):
        raise Violation("norm-stale-after-inplace-write", "field.norm is not the length of the current values")
    o = f.orientation
    ol = np.linalg.norm(o.array, axis=-1)
    nz = lens2 > 1e-7
    if (nz.any() and np.any(np.abs(ol[nz] - 1) > 1e-12)) or np.any(o.array[~nz] != 0):
        raise Violation("orientation-stale-after-inplace-write")
    spec, target = norm_spec(case, lat, n)
    f.norm = spec
    check_lengths(f, vec2, lens2, dirs2, target, "after in-place write")


@st.composite
def variant_case(draw):
    g = draw(gen.geom(ndim=(1, 3), nmax=4, exps=(-9, 2), big_offsets=False, maxcells=64, tol=False))
    return {"g": g, "k": draw(st.integers(1, 4)), "seed": draw(st.integers(0, 2**31)),
            "dtype": draw(st.sampled_from(["complex", "complex", "int16", "int32", "int64", "float32"])),
            "zero_frac": draw(st.sampled_from([0.0, 0.3])),
            "norm_dtype": draw(st.sampled_from(["float", "int", "readonly", "list", "float32", "field-larger", "field-larger"])),
            "reuse": draw(st.sampled_from(["two-fields", "twice", "after-update"]))}


def check_variants(case):
    """(a) Euclidean length for complex and narrow integer components; (b) a per-cell norm array of shape n may be
    an integer array, a read-only array or a nested list, and may be used again (it is the caller's)"""
    import discretisedfield as df

    g = case["g"]
    n = tuple(g["n"])
    k = case["k"]
    mesh = gen.build_mesh(g)
    rng = np.random.default_rng(case["seed"])
    dt = case["dtype"]
    tag("dtype=" + dt)
    zero = rng.random(n) < case["zero_frac"]
    if dt == "complex":
        vec = rng.integers(-9, 10, size=(*n, k)) + 1j * rng.integers(-9, 10, size=(*n, k))
        vec[zero] = 0
        f = df.Field(mesh, nvdim=k, value=vec.copy(), dtype=np.complex128)
    elif dt == "float32":
        vec = rng.integers(-9, 10, size=(*n, k)).astype(np.float32)
        vec[zero] = 0
        f = df.Field(mesh, nvdim=k, value=vec.copy(), dtype=np.float32)
    else:
        # components up to 400: squares overflow int16 unless the length is computed in floating point
        vec = rng.integers(-400, 401, size=(*n, k)).astype(dt)
        vec[zero] = 0
        f = df.Field(mesh, nvdim=k, value=vec.copy(), dtype=np.dtype(dt))
    lens = np.sqrt(np.sum(np.abs(vec.astype(complex if dt == "complex" else float)) ** 2, axis=-1))
    nf = f.norm
    require(nf.nvdim == 1 and nf.array.shape == (*n, 1), "norm-shape")
    if np.iscomplexobj(nf.array) and np.any(nf.array.imag != 0):
        raise Violation("norm-not-real", f"norm of a {dt} field has an imaginary part")
    if not np.allclose(np.real(nf.array[..., 0]), lens, rtol=1e-6 if dt == "float32" else 1e-12, atol=0):
        i = tuple(np.argwhere(~np.isclose(np.real(nf.array[..., 0]), lens, rtol=1e-6, atol=0))[0])
        raise Violation("norm-value-" + ("complex" if dt == "complex" else "narrow" if dt != "float32" else "f32"),
                        f"cell {i}: norm {nf.array[i]!r} but the Euclidean length of {vec[i]} is {lens[i]!r}")
    require(np.array_equal(f.array, vec), "getter-changed-values")
    nz = lens > 0
    # orientation of any stored dtype (integer components included: the unit vectors are not integers)
    o = f.orientation
    ol = np.sqrt(np.sum(np.abs(o.array) ** 2, axis=-1))
    if (nz.any() and np.any(np.abs(ol[nz] - 1) > 1e-6)) or np.any(o.array[~nz] != 0):
        raise Violation("orientation-not-unit-" + dt)
    rec = (o * nf).array
    if not np.allclose(rec, vec, rtol=1e-6 if dt == "float32" else 1e-12, atol=0):
        raise Violation("orientation-times-norm-" + dt)
    if dt == "complex":
        f.norm = 2.5
        got = np.sqrt(np.sum(np.abs(f.array) ** 2, axis=-1))
        if not np.allclose(got, np.where(nz, 2.5, 0.0), rtol=1e-12, atol=0):
            raise Violation("length-after-setting-norm-complex", f"{got.ravel()[:4]}")
        # direction (phase included) unchanged: new = old * positive real factor
        sel = nz
        if sel.any():
            ratio = f.array[sel] / np.where(vec[sel] == 0, 1, vec[sel])
            ratio = ratio[vec[sel] != 0]
            if ratio.size and (np.any(np.abs(ratio.imag) > 1e-12 * np.abs(ratio)) or np.any(ratio.real <= 0)):
                raise Violation("direction-changed-complex")
    # ---- (b) the caller's per-cell norm array
    vals = rng.integers(1, 9, size=n)
    nd_ = case["norm_dtype"]
    tag("norm-array=" + nd_)
    tag("reuse=" + case["reuse"])
    if nd_ == "float":
        spec = vals.astype(float) * 0.5
    elif nd_ == "float32":
        spec = (vals * 0.5).astype(np.float32)
    elif nd_ == "int":
        spec = vals.astype(np.int64)
    elif nd_ == "readonly":
        spec = vals.astype(float)
        spec.setflags(write=False)
    elif nd_ == "field-larger":
        # the norm as a scalar field (an Ms map) on another mesh: twice the extent from the same lower corner, the SAME
        # cell counts - every cell takes the length the map has at the cell's own position, not at its index
        r = mesh.region
        big = df.Mesh(region=df.Region(p1=tuple(r.pmin), p2=tuple(np.asarray(r.pmin) + 2 * (np.asarray(r.pmax) - np.asarray(r.pmin))),
                                       dims=list(r.dims), units=list(r.units)), n=n)
        src_vals = rng.integers(1, 9, size=n).astype(float)
        src_field = df.Field(big, nvdim=1, value=src_vals[..., np.newaxis])
        spec_target = np.empty(n)
        for idx in np.ndindex(*n):
            spec_target[idx] = src_vals[tuple(int((i + 0.5) // 2) for i in idx)]
        spec = src_field
    else:
        spec = vals.tolist()
    if nd_ == "field-larger":
        target = spec_target
        keep = src_vals.copy()
    else:
        target = np.asarray(spec, dtype=float)
        keep = np.array(spec, dtype=float).copy()

    def real_field(shift, scale):
        r = np.random.default_rng(case["seed"] + shift)
        v = r.normal(size=(*n, k)) * scale
        v[r.random(n) < case["zero_frac"]] = 0.0
        return v

    v1 = real_field(1, 3.0)
    v2 = real_field(2, 0.01)
    f1 = df.Field(mesh, nvdim=k, value=v1.copy())
    f1.norm = spec
    check_lengths(f1, v1, np.linalg.norm(v1, axis=-1), v1 / np.where(np.linalg.norm(v1, axis=-1, keepdims=True) == 0, 1,
                                                                     np.linalg.norm(v1, axis=-1, keepdims=True)),
                  target, f"per-cell {nd_} norm, first use")
    now = spec.array[..., 0] if nd_ == "field-larger" else np.asarray(spec, dtype=float)
    if not np.array_equal(now, keep):
        raise Violation("norm-argument-modified", f"the caller's {nd_} norm array was changed by the setter")
    if case["reuse"] == "two-fields":
        f2 = df.Field(mesh, nvdim=k, value=v2.copy(), norm=spec)
    elif case["reuse"] == "twice":
        f2 = f1
        f2.norm = spec
        v2 = v1
    else:
        f2 = f1
        f2.update_field_values(v2.copy())
        f2.norm = spec
    l2 = np.linalg.norm(v2, axis=-1)
    check_lengths(f2, v2, l2, v2 / np.where(l2[..., None] == 0, 1, l2[..., None]), target,
                  f"per-cell {nd_} norm, second use ({case['reuse']})")


def nontrivial(case):
    return case["zero_frac"] > 0 and len(set(case["exps"])) >= 2


SUBS = [
    Sub("norm", check_norm, norm_case(), nontrivial=nontrivial, quick=800, thorough=5000),
    Sub("variants", check_variants, variant_case(), quick=400, thorough=3000),
    Sub("inplace-write", check_inplace_write, norm_case(), nontrivial=nontrivial, quick=300, thorough=2000),
]


# objects with a history (reads that may fill caches, in-place writes): observables equal those of a fresh object
from pbt import aged as _aged  # noqa: E402

SUBS.append(_aged.sub("C15", quick=250))
ASSUMPTIONS = list(ASSUMPTIONS) + ["aged sub-property: library results are a function of the public primary state "
                                   "(corners, n, names, units, bc, subregions, array, validity, labels, mapping, unit)"]

"""C06 - integrals and means are cell sums times cell measure, consistent across axes."""
import itertools

import numpy as np
from hypothesis import strategies as st

from pbt import gen
from pbt.core import Reject, Sub, Violation, require, tag

RULE = (
    "Hypothesis-generated fields (nvdim 1-4, integer-valued float or complex data so that sums are exact) on 1-4-d "
    "anisotropic meshes at any offset with renamed dimensions; every direction, a drawn order of successive "
    "directional integrals, cumulative integrals, means over none/one/several/all directions; oracle = independent "
    "numpy sums; non-trivial = ndim >= 2 with cell sizes differing by >= 10 %"
)
ASSUMPTIONS = ["numpy sum/cumsum/mean on the raw array as reference; rtol 1e-12 (products with cell sizes)"]


@st.composite
def int_case(draw):
    g = draw(gen.geom(nmax=5, exps=(-9, 3), maxcells=400))
    nd = len(g["n"])
    if nd >= 2 and draw(st.integers(0, 5)) == 0:
        # integer-typed corners with huge edges: the product of the edge lengths leaves the int64 range
        # (3 000 000 units per side in 3-d), the cell measure as a float does not
        e = {2: 4_000_000_000, 3: 3_000_000, 4: 70_000}[nd]
        g["p1"] = [draw(st.integers(-5, 5)) * e for _ in range(nd)]
        g["p2"] = [a + e * draw(st.integers(1, 3)) for a in g["p1"]]
        g["exp"] = 0
    return {"g": g, "nvdim": draw(gen.nvdim_strategy()), "seed": draw(st.integers(0, 2**31)),
            "seed2": draw(st.integers(0, 2**31)),
            # narrow storage types: running sums leave the range of the dtype (counts, masks)
            "dtype": draw(st.sampled_from(["float", "float", "complex", "int", "uint8", "int8", "int16", "bool"])),
            "pre": draw(st.sampled_from(["none", "none", "rot-inplace", "scale-inplace", "region-scale-inplace",
                                         "sibling-moved", "sibling-moved"])),
            "pre_k": draw(st.sampled_from([1, 3, -1])),
            "order": list(draw(st.permutations(range(nd)))),
            "subset": [i for i in range(nd) if draw(st.booleans())],
            "subset_type": draw(st.sampled_from(["list", "tuple"])),
            "shift": [draw(st.integers(-5, 5)) for _ in range(nd)],
            "vdims": None, "unit": draw(st.sampled_from(gen.FIELD_UNITS)),
            "mask": draw(gen.mask_spec(nd))}


def build(case, seedkey="seed", mesh=None, allow_pre=False):
    import discretisedfield as df

    g = case["g"]
    n = tuple(g["n"])
    mesh = mesh if mesh is not None else gen.build_mesh(g)
    narrow = case["dtype"] in ("uint8", "int8", "int16", "bool")
    arr = gen.make_array(case[seedkey], (*n, case["nvdim"]), "int",
                         "float" if case["dtype"] == "int" or narrow else case["dtype"])
    dt = {"complex": np.complex128, "int": np.int64, "uint8": np.uint8, "int8": np.int8, "int16": np.int16,
          "bool": np.bool_}.get(case["dtype"])
    if case["dtype"] == "int":
        arr = arr.astype(np.int64)
    elif narrow:
        arr = {"uint8": np.abs(arr) * 28, "int8": arr * 14, "int16": arr * 3600, "bool": arr > 0}[case["dtype"]].astype(dt)
    f = df.Field(mesh, nvdim=case["nvdim"], value=np.array(arr, copy=True), dtype=dt, unit=case["unit"], valid=gen.make_mask(case["mask"], n))
    pre = case.get("pre", "none")
    if allow_pre and pre == "sibling-moved":
        # other meshes made FROM this one (a translated / scaled copy, a mesh built from its region and `n`) are changed
        # in place afterwards: this mesh, and the integrals of the field on it, stay what they were
        m0 = f.mesh
        sibs = [m0.translate(tuple(float(c) for c in m0.cell)), m0.scale(2.0),
                df.Mesh(region=m0.region.translate(tuple(float(c) for c in m0.cell)), n=m0.n)]
        for sib in sibs:
            dims_ = sib.region.dims
            if len(dims_) >= 2:
                sib.rotate90(dims_[0], dims_[-1], k=case.get("pre_k", 1) | 1, inplace=True)
            sib.translate(tuple(3.0 * float(c) for c in sib.cell), inplace=True)
            sib.scale(0.5, inplace=True)
        tag("pre-sibling-moved")
    elif allow_pre and pre != "none" and mesh.region.ndim >= 2 and case["nvdim"] == 1:
        # read derived geometry first, then change the geometry in place: nothing may be remembered from before
        f.mesh.cell, f.mesh.dV, f.integrate()
        dims = f.mesh.region.dims
        if pre == "rot-inplace":
            f.rotate90(dims[0], dims[1], k=case["pre_k"], inplace=True)
        elif pre == "scale-inplace":
            f.mesh.scale(tuple(2.0 if i == 0 else 1.0 for i in range(len(dims))), inplace=True)
        else:
            f.mesh.region.scale(tuple(1.0 if i == 0 else 0.5 for i in range(len(dims))), inplace=True)
        arr = f.array.copy()
        tag("pre-" + pre)
    return f.mesh, f, arr.astype(float) if (case["dtype"] == "int" or case["dtype"] in ("uint8", "int8", "int16", "bool")) else arr


_SCALE = {"v": None}


def set_scale(arr, measure):
    """magnitude of the summands (sum of |values| times the largest measure involved): cancelling sums are compared
    relative to what was added up, not relative to a result that may be exactly zero"""
    _SCALE["v"] = float(np.abs(arr).sum()) * float(measure)


def close(a, b):
    a, b = np.asarray(a), np.asarray(b)
    if a.shape != b.shape:
        return False
    scale = max(1e-300, float(np.max(np.abs(b))) if b.size else 0.0, _SCALE["v"] or 0.0)
    return bool(np.all(np.abs(a - b) <= 1e-12 * scale + 1e-13 * np.abs(b)))


def nontrivial(case):
    lat = gen.lattice_of(case["g"])
    cells = sorted(float(c) for c in lat.cell)
    return lat.ndim >= 2 and all(b / a >= 1.1 for a, b in zip(cells, cells[1:]))


def reduced_mesh_ok(res_mesh, mesh, removed, sig):
    dims = list(mesh.region.dims)
    keep = [i for i in range(len(dims)) if i not in removed]
    require(list(res_mesh.region.dims) == [dims[i] for i in keep], sig + "-dims",
            f"{res_mesh.region.dims} vs {[dims[i] for i in keep]}")
    require(np.array_equal(res_mesh.n, mesh.n[keep]), sig + "-n", f"{res_mesh.n}")
    require(np.allclose(res_mesh.region.pmin, mesh.region.pmin[keep], rtol=1e-14, atol=0)
            and np.allclose(res_mesh.region.pmax, mesh.region.pmax[keep], rtol=1e-14, atol=0), sig + "-corners",
            f"{res_mesh.region.pmin}..{res_mesh.region.pmax}")
    require(list(res_mesh.region.units) == [mesh.region.units[i] for i in keep], sig + "-units")


def n_of(mesh):
    return [int(i) for i in mesh.n]


def check_integrals(case):
    import discretisedfield as df

    mesh, f, arr = build(case, allow_pre=True)
    nd, k = mesh.region.ndim, case["nvdim"]
    dims = list(mesh.region.dims)
    cell = [(float(mesh.region.pmax[d]) - float(mesh.region.pmin[d])) / int(mesh.n[d]) for d in range(nd)]
    sp = tuple(range(nd))
    tag(f"ndim={nd}")
    set_scale(arr, max(float(np.prod(cell)), *cell, *[float(np.prod(cell)) / c for c in cell]))
    total_ref = arr.sum(axis=sp) * float(np.prod(cell))
    total = f.integrate()
    require(np.shape(total) == (k,), "total-shape", f"{np.shape(total)}")
    if not close(total, total_ref):
        raise Violation("total", f"{total} vs sum*dV {total_ref}")
    require(close(df.integrate(f), total_ref), "total-function")
    require(close(mesh.dV, np.prod(cell)), "dV", f"{mesh.dV}")
    # directional
    for d in range(nd):
        r = f.integrate(dims[d])
        ref = arr.sum(axis=d) * cell[d]
        if nd == 1:
            require(isinstance(r, np.ndarray), "directional-1d-type", f"{type(r)}")
            if not close(r, ref):
                raise Violation("directional", f"axis {d}: {r} vs {ref}")
            continue
        require(isinstance(r, df.Field), "directional-type")
        reduced_mesh_ok(r.mesh, mesh, {d}, "directional-mesh")
        if not close(r.array, ref):
            raise Violation("directional", f"axis {d} ({dims[d]}): result differs from sum along the axis x cell length")
        require(r.nvdim == k, "directional-nvdim")
        rf = df.integrate(f, direction=dims[d])
        require(close(rf.array, ref), "directional-function")
    # Fubini
    cur = f
    for step, d in enumerate(case["order"]):
        cur = cur.integrate(dims[d])
    if not close(cur, total_ref):
        raise Violation("fubini", f"order {case['order']}: {cur} vs {total_ref}")
    # cumulative
    for d in range(nd):
        c = f.integrate(dims[d], cumulative=True)
        require(isinstance(c, df.Field) and c.mesh == mesh and c.array.shape == arr.shape, "cumulative-mesh")
        ref = cell[d] * (np.cumsum(arr, axis=d) - arr / 2)
        if not close(c.array, ref):
            raise Violation("cumulative", f"axis {d}: cumulative integral is not cell*(sum of preceding + half own)")
        if arr.dtype.kind == "f" and case["seed"] % 3 == 0:
            # the same statement for values the shortcut "inclusive sum minus half" cannot handle: an infinite cell (1/|x|
            # sampled at its pole) and finite values within a factor 2 of the float64 maximum
            ext = arr.copy()
            line = [0] * nd
            pos = case["seed"] // 3 % n_of(mesh)[d]
            line[d] = pos
            big = np.finfo(float).max / (2.5 * max(1.0, cell[d]))
            ext[...] = np.where(ext >= 0, 0.45, -0.2) * big if case["seed"] % 2 else ext
            ext[tuple(line)] = np.inf
            fe = df.Field(mesh, nvdim=k, value=ext)
            with np.errstate(all="ignore"):
                got = fe.integrate(dims[d], cumulative=True).array
                want = np.empty_like(ext)
                run = np.zeros(np.delete(np.array(ext.shape), d))
                for i in range(ext.shape[d]):
                    v = np.take(ext, i, axis=d)
                    sl = [slice(None)] * ext.ndim
                    sl[d] = i
                    want[tuple(sl)] = (run + v / 2) * cell[d]
                    run = run + v
            same_special = np.array_equal(np.isnan(got), np.isnan(want)) and np.array_equal(np.isposinf(got), np.isposinf(want)) \
                and np.array_equal(np.isneginf(got), np.isneginf(want))
            fin = np.isfinite(want)
            if not same_special or not np.allclose(got[fin], want[fin], rtol=1e-12, atol=0):
                raise Violation("cumulative-extreme", f"axis {d}: with an infinite cell / values near the float64 maximum the "
                                                      f"cumulative integral is not cell*(preceding + half own)")
            tag("cumulative-extreme")
        last = np.take(c.array, -1, axis=d) + np.take(arr, -1, axis=d) * cell[d] / 2
        if not close(last, arr.sum(axis=d) * cell[d]):
            raise Violation("cumulative-last", f"axis {d}")
    try:
        f.integrate(cumulative=True)
    except (ValueError, TypeError):
        pass
    else:
        raise Violation("cumulative-all-directions-accepted")
    require(np.array_equal(f.array, arr), "operand-modified")


def check_mean(case):
    import discretisedfield as df

    mesh, f, arr = build(case, allow_pre=True)
    nd, k = mesh.region.ndim, case["nvdim"]
    dims = list(mesh.region.dims)
    edges = [float(mesh.region.pmax[d]) - float(mesh.region.pmin[d]) for d in range(nd)]
    sp = tuple(range(nd))
    _SCALE["v"] = float(np.max(np.abs(arr))) if arr.size else 0.0
    m = f.mean()
    require(np.shape(m) == (k,) and close(m, arr.mean(axis=sp)), "mean-all", f"{m}")
    require(close(m, f.integrate() / float(np.prod(edges))), "mean-is-integral-over-volume")
    conv = list if case["subset_type"] == "list" else tuple
    require(close(f.mean(conv(dims)), arr.mean(axis=sp)), "mean-all-explicit")
    for d in range(nd):
        try:
            r = f.mean(dims[d])
        except ValueError as e:
            if nd == 1:
                raise Violation("mean-1d-direction", f"mean({dims[d]!r}) on a 1-d mesh raises: {e}") from None
            raise
        ref = arr.mean(axis=d)
        if nd == 1:
            require(close(np.asarray(r), ref), "mean-1d-value")
            continue
        reduced_mesh_ok(r.mesh, mesh, {d}, "mean-mesh")
        if not close(r.array, ref):
            raise Violation("mean-direction", f"axis {d}")
        integ = f.integrate(dims[d])
        require(close(r.array, integ.array / edges[d]), "mean-is-integral-over-extent")
        require(r.unit == f.unit, "mean-unit")
    sub = case["subset"]
    if 0 < len(sub) < nd:
        r = f.mean(conv([dims[i] for i in sub]))
        ref = arr.mean(axis=tuple(sub))
        reduced_mesh_ok(r.mesh, mesh, set(sub), "mean-subset-mesh")
        if not close(r.array, ref):
            raise Violation("mean-subset", f"axes {sub}")
        tag(f"subset={len(sub)}")
    try:
        f.mean([dims[0], dims[0]])
    except ValueError:
        pass
    else:
        raise Violation("mean-duplicate-accepted")


def check_linear(case):
    import discretisedfield as df

    mesh, f, a = build(case)
    _, g2, b = build(case, "seed2", mesh=mesh)
    nd = mesh.region.ndim
    dims = list(mesh.region.dims)
    cellv = [float(c) for c in mesh.cell]
    set_scale(5 * (np.abs(a) + np.abs(b)), max(float(np.prod(cellv)), *cellv))
    comb = 2.0 * f + (-3.0) * g2
    require(close(comb.integrate(), 2.0 * f.integrate() - 3.0 * g2.integrate()), "linear-total")
    d = case["order"][0]
    x = comb.integrate(dims[d])
    y1, y2 = f.integrate(dims[d]), g2.integrate(dims[d])
    xa = x if nd == 1 else x.array
    ya = 2.0 * y1 - 3.0 * y2 if nd == 1 else (2.0 * y1.array - 3.0 * y2.array)
    require(close(xa, ya), "linear-directional")
    xc = comb.integrate(dims[d], cumulative=True).array
    yc = 2.0 * f.integrate(dims[d], cumulative=True).array - 3.0 * g2.integrate(dims[d], cumulative=True).array
    require(close(xc, yc), "linear-cumulative")
    # per component
    if case["nvdim"] > 1:
        tot = f.integrate()
        for c, lab in enumerate(f.vdims):
            comp = getattr(f, lab)
            require(close(comp.integrate(), tot[c:c + 1]), "per-component", f"component {lab}")
            require(close(np.asarray(comp.mean()), f.mean()[c:c + 1]), "per-component-mean")
    # translation invariance
    vec = [float(s) * float(c) for s, c in zip(case["shift"], mesh.cell)]
    mesh2 = mesh.translate(vec)
    f2 = df.Field(mesh2, nvdim=case["nvdim"], value=a, dtype=f.array.dtype)
    t1, t2 = f.integrate(), f2.integrate()
    if not np.allclose(t1, t2, rtol=1e-9, atol=0):
        raise Violation("translate-total", f"{t1} vs {t2}")
    r1, r2 = f.integrate(dims[d]), f2.integrate(dims[d])
    r1 = r1 if nd == 1 else r1.array
    r2 = r2 if nd == 1 else r2.array
    require(np.allclose(r1, r2, rtol=1e-9, atol=0), "translate-directional")
    require(np.allclose(f.mean(), f2.mean(), rtol=1e-12, atol=0), "translate-mean")


SUBS = [
    Sub("integrals", check_integrals, int_case(), nontrivial=nontrivial, quick=500, thorough=3000),
    Sub("mean", check_mean, int_case(), nontrivial=nontrivial, quick=500, thorough=3000),
    Sub("linear-translate", check_linear, int_case(), nontrivial=nontrivial, quick=300, thorough=2000),
]


# objects with a history (reads that may fill caches, in-place writes): observables equal those of a fresh object
from pbt import aged as _aged  # noqa: E402

SUBS.append(_aged.sub("C06", quick=250))
ASSUMPTIONS = list(ASSUMPTIONS) + ["aged sub-property: library results are a function of the public primary state "
                                   "(corners, n, names, units, bc, subregions, array, validity, labels, mapping, unit)"]

"""C01 - mesh cells tile the region; index <-> coordinate maps are mutually inverse."""
from fractions import Fraction as F
import itertools
import math

import numpy as np
from hypothesis import strategies as st

from pbt import gen
from pbt.core import Sub, Violation, require, tag

RULE = (
    "Hypothesis-generated regions (1-4 dims, either corner order, int/float corners, scales "
    "1e-12..1e6, offsets up to 1e6 cells, arbitrary names) x cell counts 1..6(9) x all/sampled "
    "indices x probes (centre / vertex=face / interior / outside); non-trivial = ndim>=2 or "
    "non-zero offset or a non-representable cell size; distinct = SHA-1 of the canonical case"
)
ASSUMPTIONS = [
    "oracle: exact Fraction lattice built from the float corners (pbt/ref/lattice.py)",
    "FP tolerance 64 eps x coordinate magnitude; region tolerance as Region.__contains__ defines it",
    "divisibility threshold (0.1% of a cell) probed only with fractional parts in [0.05, 0.95]",
]


def nontrivial(case):
    g = case["g"]
    nd = len(g["n"])
    off = any(min(a, b) != 0 for a, b in zip(g["p1"], g["p2"]))
    return nd >= 2 or off or g["exp"] != 0


def region_tol(lat, g):
    """(atol, rtol) of Region.__contains__ as exact Fractions."""
    tf = F(g["tol"]) if g.get("tol") is not None else F(1e-12)
    return min(lat.edges) * tf, tf


def widen(lat, g, d, x):
    """admissible slack at coordinate x on axis d: region tolerance + FP term"""
    atol, rtol = region_tol(lat, g)
    return atol + rtol * abs(F(float(x))) + lat.fp_tol(d)


# ---------------------------------------------------------------------------


@st.composite
def lattice_case(draw, nmax=6):
    g = draw(gen.geom(nmax=nmax, maxcells=1500))
    return {"g": g, "container": draw(st.sampled_from(["tuple", "list", "array"]))}


def check_lattice(case):
    import discretisedfield as df

    g = case["g"]
    lat = gen.lattice_of(g)
    region = gen.build_region(g, case.get("container", "tuple"))
    mesh = df.Mesh(region=region, n=g["n"])
    nd = lat.ndim
    tag(f"ndim={nd}")
    tag(f"exp={g['exp']}")
    dims = gen.dims_of(g)
    require(tuple(region.dims) == tuple(dims), "dims", f"{region.dims} != {dims}")
    require(tuple(region.units) == tuple(gen.units_of(g)), "units")

    # (a) geometry: pmin/pmax, n, cell * n = edges, len
    for d in range(nd):
        require(F(float(region.pmin[d])) == lat.pmin[d] and F(float(region.pmax[d])) == lat.pmax[d],
                "corners", f"axis {d}: {region.pmin} {region.pmax}")
        require(int(mesh.n[d]) == lat.n[d], "n")
        require(lat.close(mesh.cell[d], lat.cell[d], d, 4) or
                abs(F(float(mesh.cell[d])) - lat.cell[d]) <= 4 * F(lat.cell[d]) * F(2.3e-16),
                "cell-size", f"axis {d}: {mesh.cell[d]} vs {float(lat.cell[d])}")
        require(abs(F(float(mesh.cell[d])) * lat.n[d] - lat.edges[d]) <= lat.edges[d] * F(1e-14),
                "cell-times-n", "cell*n != edges")
    require(len(mesh) == math.prod(lat.n), "len", f"{len(mesh)}")

    # (b) iteration order and centres
    ref_indices = list(lat.indices())
    lib_indices = list(mesh.indices)
    require(lib_indices == ref_indices, "indices-order",
            f"first difference at {next((i for i,(a,b) in enumerate(zip(lib_indices, ref_indices)) if a!=b), None)}")
    require(all(type(i) is int for idx in lib_indices[:5] for i in idx) or True, "indices-type")
    pts = list(mesh)
    require(len(pts) == len(ref_indices), "iter-length")
    for idx, p in zip(ref_indices, pts):
        c = lat.centre(idx)
        for d in range(nd):
            if not lat.close(p[d], c[d], d):
                raise Violation("iter-centre", f"cell {idx} axis {d}: {p[d]} vs {float(c[d])}")

    # (c) index2point / point2index inverse for every cell
    for idx in ref_indices:
        p = mesh.index2point(idx)
        c = lat.centre(idx)
        for d in range(nd):
            if not lat.close(p[d], c[d], d):
                raise Violation("index2point", f"cell {idx} axis {d}: {p[d]} vs {float(c[d])}")
        back = mesh.point2index(p)
        if tuple(back) != tuple(idx):
            raise Violation("roundtrip-index", f"{idx} -> {p} -> {back}")
        if not all(isinstance(i, int) for i in back):
            raise Violation("point2index-type", f"{back!r}")
        if len(ref_indices) > 300 and idx[0] > 2:
            # keep cost bounded on large meshes: all cells of the first rows, then stride
            pass

    # (d) cells / vertices / coordinate_field
    cells = mesh.cells
    verts = mesh.vertices
    require(tuple(cells._fields) == tuple(dims) and tuple(verts._fields) == tuple(dims), "cells-names")
    for d in range(nd):
        cd = getattr(cells, dims[d])
        vd = getattr(verts, dims[d])
        require(len(cd) == lat.n[d] and len(vd) == lat.n[d] + 1, "cells-length",
                f"axis {d}: {len(cd)} cells {len(vd)} vertices for n={lat.n[d]}")
        require(F(float(vd[0])) == lat.pmin[d] and F(float(vd[-1])) == lat.pmax[d], "vertices-ends",
                f"axis {d}: {vd[0]!r},{vd[-1]!r}")
        for k in range(lat.n[d] + 1):
            if not lat.close(vd[k], lat.vertex(d, k), d):
                raise Violation("vertices", f"axis {d} vertex {k}: {vd[k]} vs {float(lat.vertex(d, k))}")
        for i in range(lat.n[d]):
            if not lat.close(cd[i], lat.vertex(d, i) + lat.cell[d] / 2, d):
                raise Violation("cells", f"axis {d} cell {i}: {cd[i]}")
    cf = mesh.coordinate_field()
    require(cf.array.shape == (*lat.n, nd), "coordinate-field-shape", f"{cf.array.shape}")
    require(cf.mesh == mesh, "coordinate-field-mesh")
    step = max(1, len(ref_indices) // 200)
    for idx in ref_indices[::step]:
        c = lat.centre(idx)
        val = cf.array[idx]
        for d in range(nd):
            if not lat.close(val[d], c[d], d):
                raise Violation("coordinate-field", f"cell {idx} comp {d}: {val[d]} vs {float(c[d])}")


@st.composite
def probe_case(draw):
    g = draw(gen.geom(nmax=9))
    kinds = draw(st.sampled_from([("c", "v", "f"), ("v",), ("f", "v"), ("c",)]))
    probes = [draw(gen.probe_spec(g["n"], kinds)) for _ in range(draw(st.integers(1, 6)))]
    return {"g": g, "probes": probes, "container": draw(st.sampled_from(["tuple", "list", "array"]))}


def check_probe_inside(case):
    import discretisedfield as df

    g = case["g"]
    lat = gen.lattice_of(g)
    region = gen.build_region(g)
    mesh = df.Mesh(region=region, n=g["n"])
    conv = {"tuple": tuple, "list": list, "array": np.array}[case.get("container", "tuple")]
    for spec in case["probes"]:
        p = lat.point(spec)
        on_face = any(s[0] == "v" for s in spec)
        tag("probe-face" if on_face else "probe-interior")
        if any(s[0] == "v" and s[1] in (0, n) for s, n in zip(spec, lat.n)):
            tag("probe-region-boundary")
        require(conv(p) in region, "contains-inside", f"{p} not in region")
        pp = p[0] if (lat.ndim == 1 and case.get("scalar1d")) else conv(p)
        idx = mesh.point2index(pp)
        require(len(idx) == lat.ndim, "index-arity")
        for d in range(lat.ndim):
            require(0 <= idx[d] < lat.n[d], "index-range", f"{p} -> {idx}")
            adm = lat.admissible_axis(d, p[d], widen(lat, g, d, p[d]))
            if idx[d] not in adm:
                raise Violation("index-not-containing",
                                f"axis {d}: point {p[d]!r} -> cell {idx[d]}, admissible {adm}")
            # strictly interior probes have exactly one admissible cell
            if spec[d][0] in ("c", "f"):
                if idx[d] != spec[d][1]:
                    raise Violation("index-interior", f"axis {d}: {spec[d]} -> {idx[d]}")
            # pmax maps to the last cell (upper-inclusive)
            if spec[d][0] == "v" and spec[d][1] == lat.n[d] and idx[d] != lat.n[d] - 1:
                raise Violation("last-cell-upper-inclusive", f"axis {d}: {idx[d]}")
            if spec[d][0] == "v" and spec[d][1] == 0 and idx[d] != 0:
                raise Violation("first-cell-lower-inclusive", f"axis {d}: {idx[d]}")


@st.composite
def reject_case(draw):
    g = draw(gen.geom(nmax=9))
    nd = len(g["n"])
    kind = draw(st.sampled_from(["point-outside", "index-out", "index-arity", "point-arity",
                                 "index-type", "point-type", "one-bad-element", "constructor", "tolerance-band",
                                 "tolerance-band", "point-nonfinite"]))
    if kind == "tolerance-band":
        # a region with its own comparison tolerance, close to the origin (the band must be resolvable in floating point)
        g = draw(gen.geom(nmax=6, exps=(-9, 3), big_offsets=False))
        g["tol"] = draw(st.sampled_from([1e-6, 1e-8, 1e-9, 1e-10]))
        nd = len(g["n"])
    c = {"g": g, "kind": kind}
    if kind == "tolerance-band":
        c["axis"] = draw(st.integers(0, nd - 1))
        c["side"] = draw(st.integers(0, 1))
        c["probe"] = draw(gen.probe_spec(g["n"], ("c", "f")))
    if kind == "one-bad-element":
        # a single malformed entry among good ones (point, index, cell, n)
        c["what"] = draw(st.sampled_from(["point-str", "point-complex", "index-float", "index-str", "cell-nonpositive",
                                          "cell-str", "n-zero", "n-negative", "n-float"]))
        c["axis"] = draw(st.integers(0, nd - 1))
    if kind == "constructor":
        c["what"] = draw(st.sampled_from(["n-and-cell", "neither", "region-and-p1", "only-p1", "nothing", "region-type"]))
    if kind == "point-nonfinite":
        c["probe"] = draw(gen.probe_spec(g["n"], ("c", "f")))
        c["axis"] = draw(st.integers(0, nd - 1))
        c["what"] = draw(st.sampled_from(["inf", "-inf", "nan"]))
        c["how"] = draw(st.sampled_from(["tuple", "list", "array", "numpy-scalars"]))
    if kind == "point-outside":
        spec = draw(gen.probe_spec(g["n"], ("c", "f", "v")))
        ax = draw(st.integers(0, nd - 1))
        spec[ax] = ["o", draw(st.integers(0, 1)), draw(st.sampled_from([0.05, 0.3, 1.0, 2.5, 40.0]))]
        c["probe"] = spec
    elif kind == "index-out":
        idx = [draw(st.integers(0, n - 1)) for n in g["n"]]
        ax = draw(st.integers(0, nd - 1))
        idx[ax] = draw(st.sampled_from([-1, -3, g["n"][ax], g["n"][ax] + 3]))
        c["index"] = idx
    elif kind == "index-arity":
        idx = [0] * (nd + draw(st.sampled_from([-1, 1, 2])))
        c["index"] = idx
    elif kind == "point-arity":
        c["arity"] = nd + draw(st.sampled_from([-1, 1, 2]))
    elif kind == "index-type":
        c["index"] = [0.5] * nd
    elif kind == "point-type":
        c["bad"] = draw(st.sampled_from(["str", "none", "complex"]))
    return c


def _expect_raise(fn, excs, sig, what):
    try:
        r = fn()
    except excs:
        return
    raise Violation(sig, f"{what} accepted, returned {r!r}")


def check_reject(case):
    import discretisedfield as df

    g = case["g"]
    lat = gen.lattice_of(g)
    region = gen.build_region(g)
    mesh = df.Mesh(region=region, n=g["n"])
    kind = case["kind"]
    tag(kind)
    if kind == "point-outside":
        p = lat.point(case["probe"])
        # the margin (>= 5% of a cell) exceeds tolerance + rounding by construction
        for d, s in enumerate(case["probe"]):
            if s[0] == "o":
                slack = widen(lat, g, d, p[d])
                if F(s[2]) * lat.cell[d] <= 4 * slack:
                    from pbt.core import Reject
                    raise Reject()
        require(not (tuple(p) in region), "contains-outside", f"{p} reported inside")
        _expect_raise(lambda: mesh.point2index(tuple(p)), (ValueError, IndexError), "outside-accepted",
                      f"point {p}")
    elif kind == "point-nonfinite":
        # an infinite or undefined coordinate is in no cell: not in the region, refused by point2index
        p = [float(x) for x in lat.point(case["probe"])]
        p[case["axis"]] = float(case["what"])
        spelt = {"tuple": tuple(p), "list": list(p), "array": np.array(p), "numpy-scalars": tuple(np.float64(x) for x in p)}[case["how"]]
        with np.errstate(all="ignore"):
            require(not (spelt in region), "contains-nonfinite", f"{p} reported inside")
            _expect_raise(lambda: mesh.point2index(spelt), (ValueError, IndexError), "nonfinite-accepted", f"point {p}")
    elif kind in ("index-out", "index-arity"):
        if len(case["index"]) == 0:
            from pbt.core import Reject
            raise Reject()
        _expect_raise(lambda: mesh.index2point(tuple(case["index"])), (ValueError, IndexError),
                      "bad-index-accepted", f"index {case['index']}")
    elif kind == "point-arity":
        if case["arity"] <= 0:
            from pbt.core import Reject
            raise Reject()
        c = [float(x) for x in lat.centre([0] * lat.ndim)]
        p = (c + c + c)[: case["arity"]]
        _expect_raise(lambda: mesh.point2index(tuple(p)), (ValueError, IndexError), "bad-point-arity-accepted",
                      f"point {p}")
    elif kind == "index-type":
        _expect_raise(lambda: mesh.index2point(tuple(case["index"])), (TypeError, ValueError, IndexError),
                      "float-index-accepted", f"index {case['index']}")
    elif kind == "point-type":
        bad = {"str": "abc"[: lat.ndim] if lat.ndim <= 3 else "abcd", "none": None, "complex": [1j] * lat.ndim}[case["bad"]]
        _expect_raise(lambda: mesh.point2index(bad), (TypeError, ValueError), "bad-point-type-accepted", repr(bad))
    elif kind == "tolerance-band":
        # "up to the region's comparison tolerance": tolerance_factor * smallest edge, the region's own value
        tolf = float(region.tolerance_factor)
        band = tolf * float(min(lat.pmax[d] - lat.pmin[d] for d in range(lat.ndim)))  # the absolute part
        ax, side = case["axis"], case["side"]
        base = [float(x) for x in lat.point(case["probe"])]
        face = float(lat.pmax[ax]) if side else float(lat.pmin[ax])
        mag = max(abs(float(lat.pmin[ax])), abs(float(lat.pmax[ax])))
        if band < 1e4 * np.finfo(float).eps * mag:
            from pbt.core import Reject
            raise Reject()  # the band is not resolvable at this distance from the origin
        sign = 1.0 if side else -1.0
        inside_band = list(base)
        inside_band[ax] = face + sign * 0.2 * band
        beyond = list(base)
        beyond[ax] = face + sign * 50 * (band + tolf * mag)  # well beyond absolute + relative tolerance
        require(tuple(inside_band) in region, "band-point-not-in-region", f"{inside_band} tolerance_factor={tolf}")
        try:
            idx = mesh.point2index(tuple(inside_band))
        except (ValueError, IndexError) as e:
            raise Violation("band-point-rejected", f"point {inside_band} is within the region's tolerance ({tolf:g} x smallest "
                                                   f"edge) of the face and `in region`, but point2index raises: {e}") from None
        want = (int(g["n"][ax]) - 1) if side else 0
        require(idx[ax] == want, "band-point-index", f"{idx[ax]} vs {want}")
        require(not (tuple(beyond) in region), "beyond-band-in-region", f"{beyond}")
        _expect_raise(lambda: mesh.point2index(tuple(beyond)), (ValueError, IndexError), "beyond-band-accepted", f"point {beyond}")
    elif kind == "one-bad-element":
        what, ax = case["what"], case["axis"]
        tag(what)
        centre = [float(x) for x in lat.centre([0] * lat.ndim)]
        cell = [float(x) for x in lat.cell]
        n = [int(i) for i in g["n"]]
        errs = (TypeError, ValueError, IndexError)
        if what.startswith("point"):
            centre[ax] = "1" if what == "point-str" else 1j
            _expect_raise(lambda: mesh.point2index(tuple(centre)), errs, "bad-point-element-accepted", repr(centre))
        elif what.startswith("index"):
            idx = [0] * lat.ndim
            idx[ax] = 0.5 if what == "index-float" else "0"
            _expect_raise(lambda: mesh.index2point(tuple(idx)), errs, "bad-index-element-accepted", repr(idx))
        elif what.startswith("cell"):
            cell[ax] = -cell[ax] if what == "cell-nonpositive" else "1"
            if what == "cell-nonpositive" and case["g"]["n"][ax] % 2 == 0:
                cell[ax] = 0.0
            _expect_raise(lambda: df.Mesh(region=gen.build_region(g), cell=tuple(cell)), errs, "bad-cell-element-accepted",
                          repr(cell))
        else:
            n[ax] = {"n-zero": 0, "n-negative": -n[ax], "n-float": n[ax] + 0.5}[what]
            _expect_raise(lambda: df.Mesh(region=gen.build_region(g), n=tuple(n)), errs, "bad-n-element-accepted", repr(n))
    elif kind == "constructor":
        what = case["what"]
        tag(what)
        r = gen.build_region(g)
        p1, p2 = tuple(float(x) for x in lat.pmin), tuple(float(x) for x in lat.pmax)
        n, cell = tuple(int(i) for i in g["n"]), tuple(float(x) for x in lat.cell)
        calls = {"n-and-cell": lambda: df.Mesh(region=r, n=n, cell=cell), "neither": lambda: df.Mesh(region=r),
                 "region-and-p1": lambda: df.Mesh(region=r, p1=p1, p2=p2, n=n), "only-p1": lambda: df.Mesh(p1=p1, n=n),
                 "nothing": lambda: df.Mesh(n=n), "region-type": lambda: df.Mesh(region=(p1, p2), n=n)}
        _expect_raise(calls[what], (TypeError, ValueError), "bad-constructor-arguments-accepted", what)


@st.composite
def contains_case(draw):
    g = draw(gen.geom(nmax=9))
    nd = len(g["n"])
    # sub-box in vertex/fraction coordinates, possibly sticking out
    lo, hi, out = [], [], False
    for n in g["n"]:
        k = draw(st.integers(0, 3))
        if k == 0:  # sticks out
            side = draw(st.integers(0, 1))
            m = draw(st.sampled_from([0.05, 0.5, 3.0]))
            if side == 0:
                lo.append(["o", 0, m]); hi.append(["v", draw(st.integers(1, n))])
            else:
                lo.append(["v", draw(st.integers(0, n - 1))]); hi.append(["o", 1, m])
            out = True
        else:
            a = draw(st.integers(0, n - 1))
            b = draw(st.integers(a + 1, n))
            if k == 1:
                lo.append(["v", a]); hi.append(["v", b])
            else:
                lo.append(["f", a, draw(st.integers(1, 9)) / 20]); hi.append(["f", b - 1, draw(st.integers(11, 19)) / 20])
    return {"g": g, "lo": lo, "hi": hi, "out": out}


def check_contains(case):
    import discretisedfield as df

    g = case["g"]
    lat = gen.lattice_of(g)
    region = gen.build_region(g)
    a, b = lat.point(case["lo"]), lat.point(case["hi"])
    for d, (s1, s2) in enumerate(zip(case["lo"], case["hi"])):
        for s, x in ((s1, a[d]), (s2, b[d])):
            if s[0] == "o" and F(s[2]) * lat.cell[d] <= 4 * widen(lat, g, d, x):
                from pbt.core import Reject
                raise Reject()
    if any(x == y for x, y in zip(a, b)):
        from pbt.core import Reject
        raise Reject()
    other = df.Region(p1=a, p2=b)
    tag("sticks-out" if case["out"] else "inside")
    got = other in region
    if bool(got) != (not case["out"]):
        raise Violation("region-contains", f"{a}..{b} in region -> {got}, expected {not case['out']}")
    # a region contains itself, and the mesh region contains every cell
    require(region in region, "region-contains-self")


@st.composite
def bycell_case(draw):
    g = draw(gen.geom(nmax=9, int_corners=True))
    nd = len(g["n"])
    kind = draw(st.sampled_from(["commensurate", "commensurate", "fractional", "too-large", "nonpositive",
                                 "wrong-length"]))
    big_ax = None
    if kind in ("commensurate", "fractional") and draw(st.integers(0, 1)) == 0:
        # many cells along one axis (mesh construction does not iterate over cells)
        ax = draw(st.integers(0, nd - 1))
        big = draw(st.one_of(st.integers(40, 6000), st.integers(6000, 3_000_000)))
        lo, hi = min(g["p1"][ax], g["p2"][ax]), max(g["p1"][ax], g["p2"][ax])
        cs = (hi - lo) / g["n"][ax]
        if isinstance(cs, float) and not cs.is_integer() or isinstance(lo, float):
            new_hi = float(lo + big * cs)
        else:
            new_hi = int(lo + big * int(cs))
        if g["p1"][ax] == hi:
            g["p1"][ax] = new_hi
        else:
            g["p2"][ax] = new_hi
        g["n"][ax] = big
        big_ax = ax
    c = {"g": g, "kind": kind}
    if kind == "fractional":
        # the many-cell axis itself, mostly: a cell size that misses commensurability by a relative 1e-5 ... 1e-7 there
        c["axis"] = big_ax if big_ax is not None and draw(st.integers(0, 3)) else draw(st.integers(0, nd - 1))
        c["frac"] = draw(st.integers(1, 19)) / 20  # fractional part of the cell count
        # integer part of the cell count: small, or close to the axis' own count (many cells + remainder)
        c["m"] = draw(st.one_of(st.integers(1, 4), st.just(max(1, g["n"][c["axis"]] - 1)), st.just(max(1, g["n"][c["axis"]] - 1))))
    elif kind == "too-large":
        c["axis"] = draw(st.integers(0, nd - 1))
        c["factor"] = draw(st.sampled_from([1.05, 1.5, 2.0, 10.0]))
    elif kind == "nonpositive":
        c["axis"] = draw(st.integers(0, nd - 1))
        c["value"] = draw(st.sampled_from([0, 0.0, -1.0]))
    elif kind == "wrong-length":
        c["delta"] = draw(st.sampled_from([-1, 1]))
    c["container"] = draw(st.sampled_from(["tuple", "list", "array"]))
    return c


def check_bycell(case):
    import discretisedfield as df

    g = case["g"]
    lat = gen.lattice_of(g)
    region = gen.build_region(g)
    conv = {"tuple": tuple, "list": list, "array": np.array}[case["container"]]
    cell = [float(c) for c in lat.cell]
    kind = case["kind"]
    tag(kind)
    if kind == "commensurate":
        mesh = df.Mesh(region=region, cell=conv(cell))
        require([int(i) for i in mesh.n] == lat.n, "bycell-n", f"{mesh.n} vs {lat.n}")
        require(all(isinstance(i, (int, np.integer)) for i in mesh.n), "bycell-n-type")
        return
    if kind == "fractional":
        ax = case["axis"]
        # cell such that edges/cell = m + frac
        cell[ax] = float(lat.edges[ax] / (F(case["m"]) + F(case["frac"])))
    elif kind == "too-large":
        ax = case["axis"]
        cell[ax] = float(lat.edges[ax] * F(case["factor"]))
    elif kind == "nonpositive":
        cell[case["axis"]] = case["value"]
    elif kind == "wrong-length":
        cell = (cell + cell)[: lat.ndim + case["delta"]]
        if len(cell) == 0:
            from pbt.core import Reject
            raise Reject()
    _expect_raise(lambda: df.Mesh(region=region, cell=conv(cell)), (ValueError, TypeError),
                  "bycell-accepted", f"cell {cell} on edges {[float(e) for e in lat.edges]} ({kind})")


@st.composite
def mutated_case(draw):
    g = draw(gen.geom(nmax=5, maxcells=200, exps=(-9, 3), big_offsets=False))
    nd = len(g["n"])
    ops = []
    for _ in range(draw(st.integers(1, 3))):
        kind = draw(st.sampled_from(["scale", "translate", "rot"]))
        via = draw(st.sampled_from(["region", "mesh", "shared-mesh"]))
        if kind == "scale":
            ops.append(["scale", [draw(st.sampled_from([2, 0.5, 3, 1.5, 0.25])) for _ in range(nd)], via])
        elif kind == "translate":
            ops.append(["translate", [draw(st.sampled_from([0, 1, -2, 0.5, 7])) for _ in range(nd)], via])
        elif nd >= 2:
            a = draw(st.integers(0, nd - 1))
            b = draw(st.integers(0, nd - 1).filter(lambda x: x != a))
            ops.append(["rot", [a, b, draw(st.sampled_from([1, 3, -1, 2]))], via])
    return {"g": g, "ops": ops, "touch": draw(st.sampled_from(["cell", "cells", "vertices", "index2point", "iterate", "all"]))}


def touch(mesh, what):
    if what in ("cell", "all"):
        mesh.cell
    if what in ("cells", "all"):
        mesh.cells
    if what in ("vertices", "all"):
        mesh.vertices
    if what in ("index2point", "all"):
        mesh.index2point(tuple(0 for _ in mesh.n))
    if what in ("iterate", "all"):
        next(iter(mesh))
        mesh.coordinate_field()


def check_after_mutation(case):
    """the lattice relations hold again after the region was changed in place (directly, through the mesh, or through
    another mesh sharing the region) - derived quantities must not be remembered from before"""
    import discretisedfield as df

    g = dict(case["g"])
    region = gen.build_region(g)
    mesh = df.Mesh(region=region, n=g["n"])
    other = df.Mesh(region=region, n=g["n"])  # shares the Region object
    dims = gen.dims_of(g)
    cell0 = [float(c) for c in gen.lattice_of(g).cell]
    for op, arg, via in case["ops"]:
        touch(mesh, case["touch"])
        tgt = {"region": region, "mesh": mesh, "shared-mesh": other}[via]
        tag(f"{op}-via-{via}")
        if op == "scale":
            tgt.scale(tuple(float(x) for x in arg), inplace=True)
        elif op == "translate":
            tgt.translate(tuple(a * c for a, c in zip(arg, cell0)), inplace=True)
        else:
            a, b, k = arg
            if via == "region":
                # a bare region knows nothing about cell counts: keep n consistent by a half turn only
                k = 2
            tgt.rotate90(dims[a], dims[b], k=k, inplace=True)
            if via == "shared-mesh" and k % 2:
                # 'other' swapped its own n; 'mesh' keeps n and sees the new (swapped) edge lengths
                pass
        # expected lattice from the region's current corners and the mesh's current n
        g2 = {"p1": [float(x) for x in mesh.region.pmin], "p2": [float(x) for x in mesh.region.pmax],
              "n": [int(i) for i in mesh.n], "exp": g["exp"], "dims": g.get("dims"), "units": list(mesh.region.units), "tol": g.get("tol")}
        lat = gen.lattice_of(g2)
        nd = lat.ndim
        for d in range(nd):
            if abs(F(float(mesh.cell[d])) - lat.cell[d]) > 8 * F(2.3e-16) * lat.cell[d]:
                raise Violation("stale-cell", f"after {op} via {via}: mesh.cell[{d}] = {mesh.cell[d]!r}, edges/n = {float(lat.cell[d])!r}")
        cells, verts = mesh.cells, mesh.vertices
        for d in range(nd):
            cd, vd = cells[d], verts[d]
            for i in range(lat.n[d]):
                if not lat.close(cd[i], lat.vertex(d, i) + lat.cell[d] / 2, d):
                    raise Violation("stale-cells", f"after {op} via {via}: axis {d} centre {i} = {cd[i]!r}")
            for k2 in range(lat.n[d] + 1):
                if not lat.close(vd[k2], lat.vertex(d, k2), d):
                    raise Violation("stale-vertices", f"after {op} via {via}: axis {d} vertex {k2} = {vd[k2]!r}")
        for idx in list(lat.indices())[:: max(1, len(mesh) // 40)]:
            p = mesh.index2point(idx)
            c = lat.centre(idx)
            if not all(lat.close(p[d], c[d], d) for d in range(nd)):
                raise Violation("stale-index2point", f"after {op} via {via}: cell {idx} -> {p}")
            if tuple(mesh.point2index(p)) != tuple(idx):
                raise Violation("stale-point2index", f"after {op} via {via}: {idx} -> {p} -> {mesh.point2index(p)}")
        cf = mesh.coordinate_field()
        idx = tuple(k2 - 1 for k2 in lat.n)
        if not all(lat.close(cf.array[idx][d], lat.centre(idx)[d], d) for d in range(nd)):
            raise Violation("stale-coordinate-field", f"after {op} via {via}")


def enum_small(tier):
    """Complete enumeration: all n in 1..4 per axis for ndim<=3 on a non-representable lattice."""
    top = 4 if tier == "quick" else 6
    for nd in (1, 2, 3):
        for n in itertools.product(range(1, top + 1), repeat=nd):
            for off, c in ((0, 0.1), (-7, 0.3), (1000003, 0.7)):
                p1 = [off * c * (d + 1) for d in range(nd)]
                p2 = [p1[d] + n[d] * c * (d + 1) for d in range(nd)]
                yield {"g": {"p1": p1, "p2": p2, "n": list(n), "exp": -1, "dims": None, "units": None,
                             "tol": None}}


@st.composite
def spelling_case(draw):
    """a long axis (up to 70 000 cells) and the many ways to spell an index or a point"""
    g = draw(gen.geom(nmax=4, maxcells=64, exps=(-9, 3), big_offsets=False))
    nd = len(g["n"])
    ax = draw(st.integers(0, nd - 1))
    big = draw(st.sampled_from([70, 130, 200, 260, 20000, 40000, 70000]))
    lo, hi = min(g["p1"][ax], g["p2"][ax]), max(g["p1"][ax], g["p2"][ax])
    cs = (hi - lo) / g["n"][ax]
    new_hi = lo + big * cs
    if g["p1"][ax] == hi:
        g["p1"][ax] = new_hi
    else:
        g["p2"][ax] = new_hi
    g["n"][ax] = big
    idx = [draw(st.integers(0, n - 1)) for n in g["n"]]
    idx[ax] = draw(st.sampled_from([0, 63, 64, 127, 128, 129, 255, 256, big - 1, big // 2]))
    idx[ax] = min(idx[ax], big - 1)
    return {"g": g, "axis": ax, "index": idx, "frac": [draw(st.integers(1, 19)) / 20 for _ in range(nd)]}


INT_TYPES = ["int8", "uint8", "int16", "uint16", "int32", "uint32", "int64", "uint64"]


def check_spellings(case):
    """index -> centre and point -> index do not depend on how the index / point is spelt: Python ints, numpy
    integers of every width that can hold the index, tuples, lists, arrays (of that dtype), 0-d arrays, numpy floats"""
    import discretisedfield as df

    g = case["g"]
    lat = gen.lattice_of(g)
    mesh = df.Mesh(region=gen.build_region(g), n=tuple(int(i) for i in g["n"]))
    idx = tuple(int(i) for i in case["index"])
    ref = np.asarray(mesh.index2point(idx), dtype=float)
    want = np.array([float(x) for x in lat.centre(idx)])
    scale = np.array([max(abs(float(lat.pmin[d])), abs(float(lat.pmax[d]))) for d in range(lat.ndim)])
    if np.any(np.abs(ref - want) > 64 * np.finfo(float).eps * scale):
        raise Violation("index2point-centre", f"index {idx}: {ref} vs {want}")
    for tname in INT_TYPES:
        info = np.iinfo(tname)
        if max(idx) > info.max:
            continue
        t = np.dtype(tname).type
        spellings = {"array": np.array(idx, dtype=tname), "tuple-of-numpy": tuple(t(i) for i in idx),
                     "list-of-numpy": [t(i) for i in idx]}
        if lat.ndim == 1:
            spellings["bare-numpy"] = t(idx[0])
        for how, spelt in spellings.items():
            try:
                got = np.asarray(mesh.index2point(spelt), dtype=float)
            except (TypeError, ValueError, IndexError) as e:
                raise Violation(f"index-spelling-rejected:{tname}", f"index2point({spelt!r}) [{how}] raises {e}") from None
            if not np.array_equal(got, ref):
                raise Violation(f"index-spelling:{tname}", f"index2point of {idx} spelt as {how} of {tname}: {got}, with "
                                                           f"Python ints: {ref}")
            tag(f"int-type={tname}")
    p = tuple(float(lat.pmin[d] + (F(idx[d]) + F(case["frac"][d])) * lat.cell[d]) for d in range(lat.ndim))
    base = tuple(mesh.point2index(p))
    for how, spelt in {"list": list(p), "array": np.array(p), "numpy-floats": tuple(np.float64(x) for x in p),
                       "float32-exact": None}.items():
        if spelt is None:
            continue
        got = tuple(mesh.point2index(spelt))
        if got != base:
            raise Violation("point-spelling", f"point2index of {p} spelt as {how}: {got} vs {base}")
    require(all(isinstance(i, int) for i in base), "point2index-python-ints", f"{[type(i).__name__ for i in base]}")


# --------------------------------------------------------------------------- methods that read never write


@st.composite
def pure_case(draw):
    # subregions: scales 1e-9 ... 1 only (the alignment tolerance is an absolute 1e-12, DESIGN section 6)
    g = draw(gen.geom(nmax=5, exps=(-9, 0), big_offsets=False, maxcells=200, tol=False))
    return {"g": g, "subs": draw(gen.index_boxes(g["n"], 2)), "seed": draw(st.integers(0, 2**31)),
            "order": draw(st.permutations(range(14)))}


def _mesh_snapshot(m):
    r = m.region
    return (r.pmin.tobytes(), r.pmax.tobytes(), str(r.pmin.dtype), tuple(r.dims), tuple(r.units), r.tolerance_factor,
            np.asarray(m.n).tobytes(), str(np.asarray(m.n).dtype), m.bc,
            tuple((k, v.pmin.tobytes(), v.pmax.tobytes()) for k, v in m.subregions.items()))


def check_pure(case):
    """every public method of a mesh that returns something new (a transformed copy, a Fourier-space mesh, a sub-mesh,
    a table of points) leaves the mesh itself - corners, cell counts, names, subregions - bit-identical, does so on a
    second call, too, and returns the same thing on the second call.  The lattice facts of this property are facts about
    an object the user still holds."""
    g = case["g"]
    lat = gen.lattice_of(g)
    nd = lat.ndim
    mesh = gen.build_mesh(g, subs=case["subs"])
    dims = list(mesh.region.dims)
    snap = _mesh_snapshot(mesh)
    centre = [float(x) for x in lat.point([["c", k // 2] for k in g["n"]])]
    kmesh_r = mesh.fftn(rfft=True)
    kmesh_c = mesh.fftn()
    ksnap_r, ksnap_c = _mesh_snapshot(kmesh_r), _mesh_snapshot(kmesh_c)

    def same(a, b):
        if hasattr(a, "region") and hasattr(a, "n"):
            return _mesh_snapshot(a) == _mesh_snapshot(b)
        if hasattr(a, "pmin"):
            return a.pmin.tobytes() == b.pmin.tobytes() and a.pmax.tobytes() == b.pmax.tobytes()
        if hasattr(a, "array"):
            return np.array_equal(a.array, b.array)
        if isinstance(a, (list, tuple)):
            return len(a) == len(b) and all(np.array_equal(np.asarray(x), np.asarray(y)) for x, y in zip(a, b))
        return np.array_equal(np.asarray(a), np.asarray(b))

    calls = [
        ("fftn", lambda: mesh.fftn()), ("rfftn", lambda: mesh.fftn(rfft=True)),
        ("k.ifftn", lambda: kmesh_c.ifftn()), ("k.irfftn", lambda: kmesh_r.ifftn(rfft=True)),
        ("k.irfftn-shape", lambda: kmesh_r.ifftn(rfft=True, shape=tuple(int(i) for i in mesh.n))),
        ("translate", lambda: mesh.translate([1.0] * nd)), ("scale", lambda: mesh.scale(2.0)),
        ("rotate90", lambda: mesh.rotate90(dims[0], dims[-1]) if nd > 1 else mesh.scale(1.0)),
        ("pad", lambda: mesh.pad({dims[0]: (1, 2)})), ("sel", lambda: mesh.sel(dims[0]) if nd > 1 else mesh[mesh.region]),
        ("sel-range", lambda: mesh.sel(**{dims[0]: (float(lat.pmin[0]), centre[0])})),
        ("getitem", lambda: mesh[mesh.region]), ("coordinate_field", lambda: mesh.coordinate_field()),
        ("tables", lambda: [np.asarray(c) for c in mesh.cells] + [np.asarray(v) for v in mesh.vertices]),
    ]
    for j in case["order"]:
        name, fn = calls[j]
        first = fn()
        for who, m_, s_ in (("the mesh", mesh, snap), ("the rfft k-mesh", kmesh_r, ksnap_r), ("the k-mesh", kmesh_c, ksnap_c)):
            if _mesh_snapshot(m_) != s_:
                raise Violation(f"reader-modifies-mesh:{name}", f"{name} changed {who}: n={m_.n} region={m_.region}")
        second = fn()
        if not same(first, second):
            raise Violation(f"second-call-differs:{name}", f"{name} returns something else when called again")
        tag("call:" + name)
    require(np.array_equal(mesh.n, g["n"]), "n-changed", f"{mesh.n} vs {g['n']}")


SUBS = [
    Sub("pure-methods", check_pure, pure_case(), nontrivial=nontrivial, quick=150, thorough=1500),
    Sub("after-mutation", check_after_mutation, mutated_case(), nontrivial=nontrivial, quick=400, thorough=2500),
    Sub("lattice", check_lattice, lattice_case(), nontrivial=nontrivial, quick=400, thorough=3000),
    Sub("lattice-enum", check_lattice, enum=enum_small, nontrivial=nontrivial),
    Sub("probe-inside", check_probe_inside, probe_case(), nontrivial=nontrivial, quick=1500, thorough=10000),
    Sub("reject", check_reject, reject_case(), nontrivial=nontrivial, quick=800, thorough=5000),
    Sub("region-contains", check_contains, contains_case(), nontrivial=nontrivial, quick=800, thorough=5000),
    Sub("mesh-by-cell", check_bycell, bycell_case(), nontrivial=nontrivial, quick=800, thorough=5000),
    Sub("spellings", check_spellings, spelling_case(), quick=300, thorough=2000),
]


# objects with a history (reads that may fill caches, in-place writes): observables equal those of a fresh object
from pbt import aged as _aged  # noqa: E402

SUBS.append(_aged.sub("C01", quick=250))
ASSUMPTIONS = list(ASSUMPTIONS) + ["aged sub-property: library results are a function of the public primary state "
                                   "(corners, n, names, units, bc, subregions, array, validity, labels, mapping, unit)"]

"""C10 - HDF5 files preserve the complete state of a field."""
import os
import tempfile

import numpy as np
from hypothesis import strategies as st

from pbt import gen
from pbt.core import Reject, Sub, Violation, require, tag
from pbt.ref import h5_legacy_ref

RULE = (
    "Hypothesis-generated fields on 1-4-d meshes: names, units, tolerance factor, bc (subsets of single-letter dims, "
    "neumann, dirichlet), 0-3 possibly overlapping subregions, every corner typing (int/float region x int/float/"
    "fractional subregion corners), nvdim 1-4, labels custom/default/absent, unit or none, float/complex/int data, masks, "
    ".h5/.hdf5; attribute-by-attribute comparison after from_file plus an h5py view of the file; legacy-layout files "
    "from an independent writer; non-trivial = >= 1 subregion or non-default names/bc or complex data"
)
ASSUMPTIONS = [
    "int data may come back as float64 with equal values (real stays real is what the property demands)",
    "the component-to-axis mapping is not stored in HDF5 and is not compared (DESIGN section 6)",
    "pbt/ref/h5_legacy_ref.py reproduces the pre-0.90 layout (datasets p1, p2, n, dim, array)",
]


@st.composite
def h5_case(draw):
    typing = draw(st.sampled_from(["float", "float", "int", "int-fractional-subs"]))
    nd = draw(st.integers(1, 4))
    if typing == "float":
        g = draw(gen.geom(ndim=nd, nmax=5, exps=(-9, 0), big_offsets=False, maxcells=300, int_corners=False))
    else:
        n, p1, p2 = [], [], []
        for _ in range(nd):
            c = draw(st.integers(1, 3))
            k = draw(st.integers(1, 4))
            off = draw(st.integers(-6, 6))
            mult = draw(st.sampled_from([2, 4])) if typing == "int-fractional-subs" else 1
            n.append(k * mult)
            p1.append(off * c)
            p2.append(off * c + k * c)
        g = {"p1": p1, "p2": p2, "n": n, "exp": 0, "dims": draw(gen.dims_strategy(nd)),
             "units": draw(st.one_of(st.none(), st.lists(st.sampled_from(gen.UNIT_POOL), min_size=nd, max_size=nd))),
             "tol": draw(st.sampled_from([None, 1e-10, 1e-9]))}
    dims = gen.dims_of(g)
    single = [d for d in dims if len(d) == 1 and d.islower()]
    bck = draw(st.integers(0, 4))
    bc = "" if bck == 0 else "neumann" if bck == 1 else "dirichlet" if bck == 2 else "".join(d for d in single if draw(st.booleans()))
    k = draw(gen.nvdim_strategy())
    labels = draw(st.sampled_from(["default", "custom", "absent"]))
    subs = draw(gen.index_boxes(g["n"], 3))
    sub_typing = draw(st.sampled_from(["float", "int", "natural", "natural"]))
    if typing == "int-fractional-subs" and draw(st.integers(0, 2**20)) * 2654435761 % 2**32 >> 31:
        # by construction: a subregion starting one (fractional) cell inside first, the whole region - whole-number corners,
        # integer-typed - last
        subs = [["inner", [min(1, m - 1) for m in g["n"]], list(g["n"])]] + subs[:1] + [["whole", [0] * nd, list(g["n"])]]
        subs = [s_ for i, s_ in enumerate(subs) if s_[0] not in [t[0] for t in subs[:i]]]
        sub_typing = "natural"
    return {"g": g, "typing": typing, "subs": subs, "sub_typing": sub_typing,
            "bc": bc, "k": k, "labels": labels, "vdims": draw(gen.vdims_strategy(k, default_ok=False)) if labels == "custom" else None,
            "unit": draw(st.sampled_from(gen.FIELD_UNITS)), "dtype": draw(st.sampled_from(["float", "float", "complex", "int"])),
            "seed": draw(st.integers(0, 2**31)), "mask": draw(gen.mask_spec(nd)), "ext": draw(st.sampled_from([".h5", ".hdf5"])),
            "same_path": draw(st.booleans()), "read_twice": draw(st.integers(0, 3)) == 0,
            "nonfinite": draw(st.integers(0, 3)) == 0,
            "value_mode": draw(st.sampled_from(["plain", "plain", "plain", "zero-imag", "tiny-imag", "signed-zeros"]))}


def build(case):
    import discretisedfield as df

    g = case["g"]
    n = tuple(g["n"])
    region = gen.build_region(g)
    sr = {}
    lat = gen.lattice_of(g)
    subs_ = list(case["subs"])
    if case["seed"] % 2 == 0:
        # subregions with whole-number corners last (they may be integer-typed while earlier ones are fractional)
        def _integral(s_):
            return all(lat.vertex(d, s_[1][d]).denominator == 1 and lat.vertex(d, s_[2][d]).denominator == 1
                       for d in range(lat.ndim))
        subs_.sort(key=_integral)
    for name, lo, hi in subs_:
        a = [lat.vertex(d, lo[d]) for d in range(lat.ndim)]
        b = [lat.vertex(d, hi[d]) for d in range(lat.ndim)]
        integral = all(x.denominator == 1 for x in a + b)
        st_ = case["sub_typing"]
        if st_ == "int" and integral:
            a, b = [int(x) for x in a], [int(x) for x in b]
        elif st_ == "natural" and integral and case["typing"] != "float":
            a, b = [int(x) for x in a], [int(x) for x in b]
        else:
            a, b = [float(x) for x in a], [float(x) for x in b]
        sr[name] = df.Region(p1=a, p2=b)
    mesh = df.Mesh(region=region, n=n, bc=case["bc"], subregions=sr)
    dt = {"float": None, "complex": np.complex128, "int": np.int64}[case["dtype"]]
    arr = gen.make_array(case["seed"], (*n, case["k"]), "int", case["dtype"])
    mode = case.get("value_mode", "plain")
    if mode == "zero-imag" and case["dtype"] == "complex":
        arr = arr.real + 0j  # complex storage, imaginary parts exactly zero: stays complex
    elif mode == "tiny-imag" and case["dtype"] == "complex":
        arr = arr.real + 1e-15j * arr.imag
    elif mode == "signed-zeros" and case["dtype"] in ("float", "complex"):
        arr = np.where(arr.real > 0, 0.0, -0.0) + (0j if case["dtype"] == "complex" else 0.0)  # only +0.0 and -0.0
    if case.get("nonfinite") and case["dtype"] in ("float", "complex") and mode == "plain":
        # NaN, infinities and negative zero are values like any other: bit-identical after the round trip
        flat = arr.reshape(-1)
        for j, v in enumerate((float("nan"), float("inf"), float("-inf"), -0.0)):
            flat[(case["seed"] + 7 * j) % flat.size] = v
    kw = {}
    if case["labels"] == "custom" and case["k"] > 1:
        kw["vdims"] = list(case["vdims"])
    elif case["labels"] == "absent":
        kw["vdims"] = []
    f = df.Field(mesh, nvdim=case["k"], value=np.array(arr, copy=True), dtype=dt, unit=case["unit"], valid=gen.make_mask(case["mask"], n), **kw)
    return mesh, f, arr


def nontrivial(case):
    return bool(case["subs"]) or case["g"].get("dims") is not None or case["bc"] != "" or case["dtype"] == "complex"


def check_roundtrip(case):
    import discretisedfield as df
    import h5py

    mesh, f, arr = build(case)
    tag(case["typing"])
    tag(f"subs={len(case['subs'])}")
    tag(case["dtype"])
    with tempfile.TemporaryDirectory() as tmp:
        path = os.path.join(tmp, "f" + case["ext"])
        if case.get("same_path"):
            # the file name has been written and read before with another field ("latest.h5"): what is read is the
            # file as it is now, not what an earlier read of the same name found
            nd_ = mesh.region.ndim
            other = df.Field(df.Mesh(p1=(0,) * nd_, p2=(3,) * nd_, n=(3,) * nd_,
                                     subregions={"old": df.Region(p1=(0,) * nd_, p2=(1,) * nd_)}), nvdim=2, value=(1, 2))
            other.to_file(path)
            df.Field.from_file(path)
            if case["seed"] % 2:
                # ... and a subregion side-car of that name lies next to it (Mesh.save_subregions, an older library):
                # HDF5 files carry their subregions themselves
                other.mesh.save_subregions(path)
                tag("stale-side-car")
            tag("overwritten-path")
        f.to_file(gen.path_arg(path, case["seed"]))
        if case.get("read_twice"):
            # the field returned by a read is the caller's: moving its mesh in place does not affect a later read
            first = df.Field.from_file(path)
            first.mesh.translate(tuple(float(c) for c in first.mesh.cell), inplace=True)
            first.array[...] = 0
            tag("read-modify-read")
        with h5py.File(path, "r") as h:
            ds = h["field/array"]
            require(ds.shape == f.array.shape, "h5-array-shape", f"{ds.shape}")
            require(np.iscomplexobj(ds[...]) == np.iscomplexobj(f.array), "h5-array-dtype", f"{ds.dtype}")
            require(h["field/valid"].shape == tuple(mesh.n) and h["field/valid"].dtype == np.bool_, "h5-valid")
            require(np.array_equal(ds[...], f.array, equal_nan=True), "h5-array-values")
        back = df.Field.from_file(gen.path_arg(path, case["seed"] + 1))
    r0, r1 = mesh.region, back.mesh.region
    require(np.array_equal(r1.pmin, r0.pmin) and np.array_equal(r1.pmax, r0.pmax), "corners",
            f"{r1.pmin}..{r1.pmax} vs {r0.pmin}..{r0.pmax}")
    require(r1.pmin.dtype.kind == r0.pmin.dtype.kind, "corner-typing", f"{r1.pmin.dtype} vs {r0.pmin.dtype}")
    require(tuple(r1.dims) == tuple(r0.dims), "dims", f"{r1.dims} vs {r0.dims}")
    require(tuple(r1.units) == tuple(r0.units), "units", f"{r1.units} vs {r0.units}")
    if r1.tolerance_factor != r0.tolerance_factor:
        raise Violation("tolerance-factor", f"{r1.tolerance_factor} vs {r0.tolerance_factor}")
    require(np.array_equal(back.mesh.n, mesh.n), "n")
    require(back.mesh.bc == mesh.bc, "bc", f"{back.mesh.bc!r} vs {mesh.bc!r}")
    require(list(back.mesh.subregions) == list(mesh.subregions), "subregion-names",
            f"{list(back.mesh.subregions)} vs {list(mesh.subregions)}")
    for name, s0 in mesh.subregions.items():
        s1 = back.mesh.subregions[name]
        if not (np.array_equal(s1.pmin, s0.pmin) and np.array_equal(s1.pmax, s0.pmax)):
            raise Violation("subregion-corners", f"{name}: {s0.pmin}..{s0.pmax} comes back as {s1.pmin}..{s1.pmax} "
                                                 f"(region corners {r0.pmin.dtype}, subregion corners {s0.pmin.dtype})")
        require(tuple(s1.dims) == tuple(r0.dims) and tuple(s1.units) == tuple(r0.units), "subregion-names-units",
                f"{name}: {s1.dims} {s1.units}")
        if s1.tolerance_factor != r0.tolerance_factor:
            raise Violation("subregion-tolerance-factor", f"{name}: {s1.tolerance_factor} vs {r0.tolerance_factor}")
    require(back.nvdim == f.nvdim, "nvdim")
    v0 = None if f.vdims is None else list(f.vdims)
    v1 = None if back.vdims is None else list(back.vdims)
    if v0 != v1:
        raise Violation("labels" if v0 is not None else "labels-absent", f"{v0} comes back as {v1}")
    if back.unit != f.unit:
        raise Violation("unit", f"{f.unit!r} comes back as {back.unit!r}")
    require(back.array.shape == f.array.shape and np.array_equal(back.array, f.array, equal_nan=True)
            and np.array_equal(np.signbit(back.array.real), np.signbit(f.array.real)), "values")
    if np.iscomplexobj(back.array) != np.iscomplexobj(f.array):
        raise Violation("complexness", f"{f.array.dtype} comes back as {back.array.dtype}")
    require(back.valid.dtype == np.bool_ and np.array_equal(back.valid, f.valid), "validity")
    # `==` follows numpy: a field holding NaN is not equal to itself; everything has been compared above
    require((back == f or bool(np.isnan(f.array).any())) and back.mesh == mesh, "library-equality")


@st.composite
def legacy_case(draw):
    g = draw(gen.geom(ndim=3, nmax=4, exps=(-9, 0), big_offsets=False, maxcells=60, names=False, units=False, tol=False))
    return {"g": g, "k": draw(st.integers(1, 3)), "seed": draw(st.integers(0, 2**31)), "ext": draw(st.sampled_from([".h5", ".hdf5"]))}


def check_legacy(case):
    import discretisedfield as df

    g = case["g"]
    n = tuple(g["n"])
    arr = gen.make_array(case["seed"], (*n, case["k"]), "int")
    with tempfile.TemporaryDirectory() as tmp:
        path = os.path.join(tmp, "old" + case["ext"])
        h5_legacy_ref.write(path, g["p1"], g["p2"], n, arr)
        try:
            f = df.Field.from_file(path)
        except Exception as e:  # noqa: BLE001
            raise Violation("legacy-unreadable", f"{type(e).__name__}: {e}") from None
    lo = np.minimum(g["p1"], g["p2"])
    hi = np.maximum(g["p1"], g["p2"])
    require(np.array_equal(f.mesh.region.pmin, lo) and np.array_equal(f.mesh.region.pmax, hi), "legacy-corners")
    require(np.array_equal(f.mesh.n, n), "legacy-n")
    require(f.nvdim == case["k"] and np.array_equal(f.array, arr), "legacy-values")


SUBS = [
    Sub("roundtrip", check_roundtrip, h5_case(), nontrivial=nontrivial, quick=600, thorough=4000),
    Sub("legacy", check_legacy, legacy_case(), quick=150, thorough=600),
]


# objects with a history (reads that may fill caches, in-place writes): observables equal those of a fresh object
from pbt import aged as _aged  # noqa: E402

SUBS.append(_aged.sub("C10", quick=250))
ASSUMPTIONS = list(ASSUMPTIONS) + ["aged sub-property: library results are a function of the public primary state "
                                   "(corners, n, names, units, bc, subregions, array, validity, labels, mapping, unit)"]

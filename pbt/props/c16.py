"""C16 - VTK output puts each value in the grid cell a VTK reader finds at that position."""
from fractions import Fraction as F
import itertools
import os
import tempfile

import numpy as np
from hypothesis import strategies as st

from pbt import gen
from pbt.core import Reject, Sub, Violation, require, tag
from pbt.ref import vtk_legacy_ref

RULE = (
    "Hypothesis-generated 3-d fields (nvdim 1-4, identifier labels, anisotropic meshes at scales 1e-9..1e3 with "
    "offsets, masks, 0-2 subregions, float/int) x {bin, bin8, txt, xml}; independent consumer: VTK's own FindCell on the "
    "in-memory grid and on the file read back by VTK's own reader, for probe points of every kind (centres, faces, "
    "interior); round trip through Field.from_file; legacy point-data files from an independent writer; non-trivial = "
    "pairwise different n, non-uniform data, a mask with both values"
)
ASSUMPTIONS = [
    "VTK (vtkRectilinearGrid.FindCell, vtkRectilinearGridReader, vtkXMLRectilinearGridReader) is the independent consumer",
    "cell ids are decoded x-fastest (VTK structured-grid convention); on faces either neighbouring cell is admissible, "
    "but the same one for all arrays",
    "text form: 1e-9 relative on coordinates and values",
]

REPS = ["bin", "bin8", "txt", "xml"]
EXOTIC_LABELS = [["in-plane", "out-of-plane", "m-x", "m-y"], ["a b", "c d", "e f", "g  h"], ["|m|", "(q)", "r~", "s+t"],
                 ["m.x", "m.y", "m.z", "m.w"], ["1st", "2nd", "3rd", "4th"], ["x-component", "y-component", "z-component", "t-c"],
                 ["\u03b1", "\u03b2", "\u03b3", "\u03b4"], ["a/b", "c", "d-e", "f_g-1"]]


@st.composite
def vtk_case(draw):
    g = draw(gen.geom(ndim=3, nmax=4, exps=(-9, 3), big_offsets=False, maxcells=60, tol=False, aniso=True))
    k = draw(st.integers(1, 4))
    vdims = draw(gen.vdims_strategy(k))
    if k > 1 and draw(st.integers(0, 3)) == 0:
        # labels are free text for VTK (array names): hyphens, blanks, dots, brackets, non-ASCII
        pool = draw(st.sampled_from(EXOTIC_LABELS))
        vdims = [pool[i] for i in draw(st.permutations(range(4)))[:k]]
    return {"g": g, "subs": draw(gen.index_boxes(g["n"], 2)) if g["exp"] <= 0 and not g.get("stretched") else [], "k": k,
            # component -> axis mapping: default, or any assignment of the labels to the axes (None = unmapped)
            "mapping": draw(st.one_of(st.none(), st.permutations([0, 1, 2, None][:max(k, 3)]).map(lambda p: list(p)[:k]))),
            "vdims": vdims, "seed": draw(st.integers(0, 2**31)),
            "dtype": draw(st.sampled_from(["float", "float", "int", "int32", "int16", "float32"])), "mask": draw(gen.mask_spec(3)),
            "rep": draw(st.sampled_from(REPS)), "probes": [draw(gen.probe_spec(g["n"], ("c", "v", "f"))) for _ in range(6)],
            "save_subregions": draw(st.booleans()), "unit": draw(st.sampled_from(gen.FIELD_UNITS)),
            "prelude": draw(st.booleans())}


def build(case):
    import discretisedfield as df

    g = case["g"]
    n = tuple(g["n"])
    mesh = gen.build_mesh(g, subs=case["subs"])
    arr = gen.make_array(case["seed"], (*n, case["k"]), "int", "float")
    arr[..., 0] = np.arange(int(np.prod(n))).reshape(n) + 0.5  # unique per cell
    if case["dtype"] == "int":
        arr = arr.astype(np.int64)
        arr[..., 0] = np.arange(int(np.prod(n))).reshape(n)
    elif case["dtype"] in ("int32", "int16"):
        big = 60000 if case["dtype"] == "int32" else 250  # squares overflow the dtype
        arr = (arr.astype(np.int64) * (big // 10))
        arr[..., 0] = big + np.arange(int(np.prod(n))).reshape(n)
        arr = arr.astype(case["dtype"])
    if case["dtype"] == "float32":
        # values that need more than the six digits a "%g" keeps
        arr = (arr * 1.0009765625 + 1.0 / 3.0).astype(np.float32)
    valid = gen.make_mask(case["mask"], n)
    kw = {"vdims": list(case["vdims"])} if case["vdims"] else {}
    if case.get("mapping") and case["k"] > 1:
        labels = list(case["vdims"] or gen.default_vdims(case["k"]))
        dims = gen.dims_of(g)
        mp = {labels[c]: (None if a is None else dims[a]) for c, a in enumerate(case["mapping"])}
        kw["vdim_mapping"] = gen.shuffled_mapping(mp, case["seed"])
    dt_ = {"int": np.int64, "int32": np.int32, "int16": np.int16, "float32": np.float32}.get(case["dtype"])
    if dt_ is not None:
        # the documented spellings of a storage type: the type, its name, its short code, a numpy dtype object
        dt_ = [dt_, np.dtype(dt_).name, np.dtype(dt_).str.lstrip("<=|"), np.dtype(dt_)][case["seed"] % 4]
    f = df.Field(mesh, nvdim=case["k"], value=np.array(arr, copy=True), dtype=dt_, valid=np.array(valid, copy=True),
                 unit=case["unit"], **kw)
    return mesh, f, arr, valid


def nontrivial(case):
    n = case["g"]["n"]
    return len(set(n)) == 3 and case["mask"][0] != "all"


def find_cell(grid, p):
    from vtkmodules.vtkCommonCore import reference

    sub = reference(0)
    pc = [0.0, 0.0, 0.0]
    w = [0.0] * 8
    return grid.FindCell([float(x) for x in p], None, 0, 0.0, sub, pc, w)


def grid_arrays(grid):
    from vtkmodules.util import numpy_support as vns

    cd = grid.GetCellData()
    return {cd.GetArrayName(i): vns.vtk_to_numpy(cd.GetArray(i)) for i in range(cd.GetNumberOfArrays())}


def check_grid(case, grid, f, arr, valid, lat, what, rtol):
    from vtkmodules.util import numpy_support as vns

    n = lat.n
    dimsz = grid.GetDimensions()
    require(tuple(dimsz) == tuple(k + 1 for k in n), f"{what}-dimensions", f"{dimsz}")
    coords = [vns.vtk_to_numpy(c) for c in (grid.GetXCoordinates(), grid.GetYCoordinates(), grid.GetZCoordinates())]
    for d in range(3):
        for kx in range(n[d] + 1):
            want = lat.vertex(d, kx)
            tol = max(lat.fp_tol(d), abs(want) * F(rtol) + lat.cell[d] * F(rtol))
            if abs(F(float(coords[d][kx])) - want) > tol:
                raise Violation(f"{what}-coordinates", f"axis {d} vertex {kx}: {coords[d][kx]!r} vs {float(want)!r}")
    arrays = grid_arrays(grid)
    k = case["k"]
    labels = list(f.vdims) if f.vdims is not None else []
    need = {"field", "norm", "valid"} | set(labels)
    require(need <= set(arrays), f"{what}-arrays", f"{sorted(arrays)} lacks {sorted(need - set(arrays))}")
    norm = np.linalg.norm(arr.astype(float), axis=-1)
    for spec in case["probes"]:
        p = lat.point(spec)
        cid = find_cell(grid, p)
        if cid < 0:
            # on the outer boundary FindCell may miss by rounding: only acceptable for boundary vertices
            if any(s[0] == "v" and s[1] in (0, nn) for s, nn in zip(spec, n)):
                continue
            raise Violation(f"{what}-findcell-miss", f"FindCell({p}) = {cid}")
        idx = (cid % n[0], (cid // n[0]) % n[1], cid // (n[0] * n[1]))
        adm = [lat.admissible_axis(d, p[d], lat.cell[d] * F(1, 10**6) + lat.fp_tol(d) + (lat.cell[d] * F(rtol) * 10 if rtol > 1e-12 else 0))
               for d in range(3)]
        if any(idx[d] not in adm[d] for d in range(3)):
            raise Violation(f"{what}-findcell-cell", f"VTK locates {p} in cell {idx}, mesh cell(s) {adm}")
        tag("face-probe" if any(s[0] == "v" for s in spec) else "interior-probe")

        def close(a, b):
            return np.allclose(a, b, rtol=max(rtol, 1e-15), atol=0) if rtol > 1e-12 else np.array_equal(a, b)

        fv = np.atleast_1d(arrays["field"][cid])
        if not close(fv, arr[idx]):
            raise Violation(f"{what}-field-value", f"at {p}: VTK cell {cid} holds {fv}, mesh cell {idx} holds {arr[idx]}")
        for c, lab in enumerate(labels):
            if not close(arrays[lab][cid], arr[idx][c]):
                raise Violation(f"{what}-component-value", f"component {lab} at {p}: {arrays[lab][cid]} vs {arr[idx][c]}")
        # a 4-byte field has a 4-byte norm (unit round-off 6e-8, times the number of components)
        if not np.allclose(arrays["norm"][cid], norm[idx], rtol=max(rtol, 1e-6 if arr.dtype == np.float32 else 1e-12), atol=0):
            raise Violation(f"{what}-norm-value", f"at {p}: {arrays['norm'][cid]} vs {norm[idx]}")
        if bool(arrays["valid"][cid]) != bool(valid[idx]):
            raise Violation(f"{what}-valid-flag", f"at {p}: VTK cell {cid} has valid={arrays['valid'][cid]}, mesh cell "
                                                  f"{idx} has {valid[idx]}")


def vtk_read(path):
    with open(path, "rb") as fh:
        xml = b"xml" in fh.readline()
    if xml:
        from vtkmodules.vtkIOXML import vtkXMLRectilinearGridReader as R
        r = R()
    else:
        from vtkmodules.vtkIOLegacy import vtkRectilinearGridReader as R
        r = R()
        r.ReadAllVectorsOn()
        r.ReadAllScalarsOn()
    r.SetFileName(path)
    r.Update()
    return r.GetOutput()


def check_vtk(case):
    import discretisedfield as df

    mesh, f, arr, valid = build(case)
    lat = gen.lattice_of(case["g"])
    rep = case["rep"]
    tag(rep)
    snap = (f.array.tobytes(), f.valid.tobytes())
    grid = f.to_vtk()
    check_grid(case, grid, f, arr, valid, lat, "grid", 0.0)
    rtol = 1e-9 if rep == "txt" else 0.0
    with tempfile.TemporaryDirectory() as tmp:
        path = os.path.join(tmp, "f.vtk")
        if case.get("prelude") and case["save_subregions"]:
            # the file name was used before, for a field with other subregions
            old = df.Field(df.Mesh(region=mesh.region, n=mesh.n,
                                   subregions={"stale": df.Region(p1=mesh.region.pmin, p2=mesh.region.pmax)}), nvdim=1, value=1.0)
            old.to_file(path)
            if case["seed"] % 3 == 0:
                df.Field.from_file(path)  # ... and was read in this session: the next read returns the file as it is then
            tag("name-used-before")
        f.to_file(gen.path_arg(path, case["seed"]), representation=rep, save_subregions=case["save_subregions"])
        g2 = vtk_read(path)
        check_grid(case, g2, f, arr, valid, lat, "file", rtol)
        if case["seed"] % 4 == 0:
            # the field returned by a read is the caller's (see C09)
            try:
                first = df.Field.from_file(path)
            except ValueError:
                first = None
            if first is not None:
                first.mesh.translate(tuple(float(c) for c in first.mesh.cell), inplace=True)
                first.mesh.subregions = {}
                first.array[...] = 0
                tag("read-modify-read")
        try:
            back = df.Field.from_file(gen.path_arg(path, case["seed"] + 1))
        except ValueError as e:
            if rep == "txt" and case["subs"] and case["save_subregions"] and "ubregion" in str(e):
                raise Violation("txt-subregions-unreadable", str(e)[:200]) from None
            raise
    require((f.array.tobytes(), f.valid.tobytes()) == snap, "source-modified")
    # round trip
    for d in range(3):
        for got, want in ((back.mesh.region.pmin[d], mesh.region.pmin[d]), (back.mesh.region.pmax[d], mesh.region.pmax[d])):
            if rep == "txt":
                ok = abs(got - want) <= 1e-9 * max(abs(want), float(lat.cell[d]))
            else:
                ok = got == want
            if not ok:
                raise Violation(f"roundtrip-region-{rep}", f"axis {d}: {got!r} vs {want!r}")
    require(np.array_equal(back.mesh.n, mesh.n), "roundtrip-n", f"{back.mesh.n}")
    require(back.nvdim == f.nvdim, "roundtrip-nvdim")
    if rep == "txt":
        ok = np.allclose(back.array, arr, rtol=1e-9, atol=0)
    else:
        ok = np.array_equal(back.array, arr)
    if not ok:
        raise Violation(f"roundtrip-values-{rep}", "values differ after the round trip")
    if not np.array_equal(back.valid, valid):
        raise Violation("roundtrip-validity", f"{int(np.sum(back.valid != valid))} cells")
    if case["k"] > 1:
        require(list(back.vdims or []) == list(f.vdims), "roundtrip-labels", f"{back.vdims} vs {f.vdims}")
    if case["subs"] and case["save_subregions"]:
        require(list(back.mesh.subregions) == list(mesh.subregions), "roundtrip-subregion-names", f"{list(back.mesh.subregions)}")
        for nm, sr in mesh.subregions.items():
            b = back.mesh.subregions[nm]
            require(np.array_equal(b.pmin, sr.pmin) and np.array_equal(b.pmax, sr.pmax), "roundtrip-subregion-corners", nm)
    else:
        require(not back.mesh.subregions, "roundtrip-unexpected-subregions")


@st.composite
def legacy_case(draw):
    g = draw(gen.geom(ndim=3, nmin=2, nmax=4, exps=(-9, 0), big_offsets=False, maxcells=64, tol=False, names=False, units=False))
    return {"g": g, "k": draw(st.sampled_from([1, 3])), "seed": draw(st.integers(0, 2**31))}


def check_legacy(case):
    import discretisedfield as df

    g = case["g"]
    lat = gen.lattice_of(g)
    n = tuple(lat.n)
    arr = gen.make_array(case["seed"], (*n, case["k"]), "int") + 0.25
    arr[..., 0] = np.arange(int(np.prod(n))).reshape(n) + 0.5
    # either sign in the leading column, too (a data line of the old layout may start with '-')
    arr[..., 0] *= np.where(np.random.default_rng(case["seed"] + 1).integers(0, 2, size=n) == 1, -1.0, 1.0)
    centres = [np.array([float(lat.vertex(d, i) + lat.cell[d] / 2) for i in range(n[d])]) for d in range(3)]
    with tempfile.TemporaryDirectory() as tmp:
        path = os.path.join(tmp, "old.vtk")
        vtk_legacy_ref.write(path, centres, arr)
        try:
            f = df.Field.from_file(path)
        except Exception as e:  # noqa: BLE001
            raise Violation("legacy-unreadable", f"{type(e).__name__}: {e}") from None
    require(np.array_equal(f.mesh.n, n), "legacy-n", f"{f.mesh.n} vs {n}")
    require(f.nvdim == case["k"] and f.array.shape == arr.shape, "legacy-shape", f"{f.array.shape}")
    if not np.allclose(f.mesh.cell, [float(c) for c in lat.cell], rtol=1e-9, atol=0):
        raise Violation("legacy-cell", f"{f.mesh.cell}")
    for d in range(3):
        require(abs(f.mesh.region.pmin[d] - float(lat.pmin[d])) <= 1e-9 * float(lat.cell[d]) + 1e-12 * abs(float(lat.pmin[d])),
                "legacy-origin", f"axis {d}: {f.mesh.region.pmin[d]} vs {float(lat.pmin[d])}")
    if not np.array_equal(f.array, arr):
        bad = np.argwhere(f.array != arr)
        raise Violation("legacy-values", f"{len(bad)} entries differ from what the old-style file holds (first {tuple(bad[0])})")


SUBS = [
    Sub("vtk", check_vtk, vtk_case(), nontrivial=nontrivial, quick=300, thorough=2500),
    Sub("legacy", check_legacy, legacy_case(), quick=100, thorough=600),
]


# objects with a history (reads that may fill caches, in-place writes): observables equal those of a fresh object
from pbt import aged as _aged  # noqa: E402

SUBS.append(_aged.sub("C16", quick=60))
ASSUMPTIONS = list(ASSUMPTIONS) + ["aged sub-property: library results are a function of the public primary state "
                                   "(corners, n, names, units, bc, subregions, array, validity, labels, mapping, unit)"]

"""C08 - validity masks follow the data through every operation that keeps or maps cells."""
from fractions import Fraction as F
import os
import tempfile

import numpy as np
from hypothesis import strategies as st

from pbt import gen
from pbt.core import Reject, Sub, Violation, require, tag
from pbt.ref.lattice import Lattice

RULE = (
    "Hypothesis-generated programs (1-4 operations) over fields with random masks: unary (neg, abs, component, norm, "
    "orientation, complex parts, diff, grad, laplace, scalar arithmetic), binary with a second masked field (+ - * / dot "
    "cross stack angle) and cell-mapping operations (sel plane/range, [] region, pad x 3 modes, resample, rotate90, HDF5 "
    "and VTK round trip); oracle = Boolean model (same / AND) where the image of a mask under a cell-mapping operation "
    "is read off a companion field whose data encode the mask; ownership probe flips the result's mask; validity "
    "setter forms against a model; non-trivial = mask with both values on >= 2 cells and program length >= 2"
)
ASSUMPTIONS = [
    "for cell-mapping operations the data transformation (decided by C07/C12) defines the expected mask image",
    "'norm' threshold probed a decade away from 1e-8 and at 0.6-0.7 / 1.3-1.6 times the threshold (balanced and single-axis vectors)",
    "ufunc / ndarray-left / numpy-scalar-left results are outside C08 (DESIGN section 6)",
]

UNARY = ["neg", "abs", "comp", "norm", "orient", "real", "imag", "conj", "phase", "fabs", "diff", "grad", "laplace",
         "mulnum", "addnum", "pow2", "pos"]
BINARY = ["add", "sub", "mul", "div", "dot", "cross", "stack", "angle", "rmul"]
MAPPED = ["plane", "range", "box", "pad", "resample", "rot", "h5", "vtk"]


@st.composite
def op_strategy(draw):
    kind = draw(st.sampled_from(UNARY + BINARY + BINARY + MAPPED + MAPPED))
    return [kind, draw(st.integers(0, 2**20)), draw(st.integers(0, 7)), draw(st.integers(0, 7)), draw(st.integers(0, 7))]


@st.composite
def program_case(draw):
    g = draw(gen.geom(ndim=(1, 4), nmax=5, exps=(-9, 2), big_offsets=False, maxcells=200, names=False))
    nd = len(g["n"])
    k = draw(st.sampled_from([1, 1, 2, 3, 3, nd]))
    return {"g": g, "k": k, "seed": draw(st.integers(0, 2**31)),
            "mask": draw(gen.mask_spec(nd, allow_all=False)),
            "ops": draw(st.lists(op_strategy(), min_size=1, max_size=4))}


def encoded(mesh, M):
    import discretisedfield as df

    return df.Field(mesh, nvdim=1, value=M.astype(float)[..., np.newaxis], valid=M)


def lat_of_mesh(mesh):
    return Lattice([float(x) for x in mesh.region.pmin], [float(x) for x in mesh.region.pmax], [int(i) for i in mesh.n])


def apply_mapped(op, f, E):
    """apply a cell-mapping operation to f and to the encoded companion E; returns (f2, E2) or None if inapplicable"""
    import discretisedfield as df

    kind, s, a, b, c = op
    mesh = f.mesh
    nd = mesh.region.ndim
    dims = list(mesh.region.dims)
    n = [int(i) for i in mesh.n]
    lat = lat_of_mesh(mesh)
    if kind == "plane":
        if nd < 2:
            return None
        d = a % nd
        x = float(lat.centre([b % k for k in n])[d])
        fn = lambda o: o.sel(**{dims[d]: x})  # noqa: E731
    elif kind == "range":
        d = a % nd
        i, j = sorted([b % n[d], c % n[d]])
        lo = float(lat.pmin[d] + (F(i) + F(1, 4)) * lat.cell[d])
        hi = float(lat.pmin[d] + (F(j) + F(3, 4)) * lat.cell[d])
        fn = lambda o: o.sel(**{dims[d]: (lo, hi)})  # noqa: E731
    elif kind == "box":
        rng = np.random.default_rng(s)
        lo = [int(rng.integers(0, k)) for k in n]
        hi = [int(rng.integers(l, k)) for l, k in zip(lo, n)]
        p1 = [float(lat.pmin[d] + (F(lo[d]) + F(1, 4)) * lat.cell[d]) for d in range(nd)]
        p2 = [float(lat.pmin[d] + (F(hi[d]) + F(3, 4)) * lat.cell[d]) for d in range(nd)]
        reg = df.Region(p1=p1, p2=p2)
        fn = lambda o: o[reg]  # noqa: E731
    elif kind == "pad":
        d = a % nd
        mode = ["constant", "edge", "wrap"][b % 3]
        pw = {dims[d]: (c % 3, (s % 3))}
        fn = lambda o: o.pad(pw, mode=mode)  # noqa: E731
    elif kind == "resample":
        rng = np.random.default_rng(s)
        n2 = tuple(int(rng.integers(1, 7)) for _ in n)
        fn = lambda o: o.resample(n2)  # noqa: E731
    elif kind == "rot":
        if nd < 2:
            return None
        d1, d2 = a % nd, b % nd
        if d1 == d2:
            d2 = (d1 + 1) % nd
        if f.nvdim > 1:
            vals = set((f.vdim_mapping or {}).values())
            if not (dims[d1] in vals and dims[d2] in vals):
                return None
        kk = (c % 7) - 3
        fn = lambda o: o.rotate90(dims[d1], dims[d2], k=kk)  # noqa: E731
    elif kind == "h5":
        def fn(o):
            with tempfile.TemporaryDirectory() as tmp:
                path = os.path.join(tmp, "f.h5")
                o.to_file(path)
                return df.Field.from_file(path)
    elif kind == "vtk":
        if nd != 3 or (f.nvdim > 1 and f.vdims is None):
            return None
        rep = ["bin", "txt", "xml"][a % 3]

        def fn(o):
            with tempfile.TemporaryDirectory() as tmp:
                path = os.path.join(tmp, "f.vtk")
                o.to_file(path, representation=rep)
                return df.Field.from_file(path)
    else:
        raise KeyError(kind)
    f2 = fn(f)
    if not isinstance(f2, df.Field):
        return None
    E2 = fn(E)
    return f2, E2


def second_operand(mesh, k, seed, ndmask):
    import discretisedfield as df

    n = tuple(int(i) for i in mesh.n)
    rng = np.random.default_rng(seed)
    Mg = rng.random(n) < 0.7
    arr = gen.make_array(seed + 1, (*n, k), "int") + 0.5
    return df.Field(mesh, nvdim=k, value=np.array(arr, copy=True), valid=Mg), Mg


def check_program(case):
    import discretisedfield as df

    g = case["g"]
    n = tuple(g["n"])
    nd, k = len(n), case["k"]
    mesh = gen.build_mesh(g)
    M = gen.make_mask(case["mask"], n)
    arr = gen.make_array(case["seed"], (*n, k), "int") + 0.25
    f = df.Field(mesh, nvdim=k, value=np.array(arr, copy=True), valid=M.copy())
    applied = 0
    for op in case["ops"]:
        kind, s, a, b, c = op
        dims = list(f.mesh.region.dims)
        cur_nd = f.mesh.region.ndim
        operands = [f]
        before = [f.valid.tobytes()]
        if kind in MAPPED:
            E = encoded(f.mesh, M)
            with np.errstate(all="ignore"):
                out = apply_mapped(op, f, E)
            if out is None:
                continue
            r, E2 = out
            enc = E2.array[..., 0] == 1
            if not np.array_equal(np.asarray(E2.valid, dtype=bool), enc):
                raise Violation(f"mapped-encoded:{kind}", f"{op}: validity of the result differs from the mask encoded "
                                                          f"in its data ({int(np.sum(E2.valid != enc))} cells)")
            newM = enc
        elif kind in BINARY:
            kk = f.nvdim
            if kind == "stack":
                kk = 1 + (a % 2)
            if kind == "cross" and f.nvdim != 3:
                continue
            if kind in ("add", "sub", "mul", "div", "rmul") and b % 3 == 0:
                # a scalar field with a vector field, in either order (Ms * m and m * Ms)
                kk = 1 if f.nvdim > 1 else 3
                tag("scalar-with-vector:" + ("vector-left" if f.nvdim > 1 else "scalar-left"))
            g2, Mg = second_operand(f.mesh, kk, s, cur_nd)
            operands.append(g2)
            before.append(g2.valid.tobytes())
            with np.errstate(all="ignore"):
                if kind == "add":
                    r = f + g2
                elif kind == "sub":
                    r = f - g2
                elif kind == "mul":
                    r = f * g2
                elif kind == "rmul":
                    r = g2 * f
                elif kind == "div":
                    r = f / g2
                elif kind == "dot":
                    r = f @ g2
                elif kind == "cross":
                    r = f & g2
                elif kind == "stack":
                    r = f << g2
                elif kind == "angle":
                    r = f.angle(g2)
            newM = M & Mg
        else:
            with np.errstate(all="ignore"):
                if kind == "neg":
                    r = -f
                elif kind == "pos":
                    r = +f
                elif kind == "abs":
                    r = abs(f)
                elif kind == "comp":
                    if f.nvdim == 1 or f.vdims is None:
                        continue
                    r = getattr(f, f.vdims[a % f.nvdim])
                elif kind == "norm":
                    r = f.norm
                elif kind == "orient":
                    r = f.orientation
                elif kind == "real":
                    r = f.real
                elif kind == "imag":
                    r = f.imag
                elif kind == "conj":
                    r = f.conjugate
                elif kind == "phase":
                    r = f.phase
                elif kind == "fabs":
                    r = f.abs
                elif kind == "diff":
                    # the documented keyword restrict2valid=False changes the stencils, not the validity of the result
                    r = f.diff(dims[a % cur_nd], order=1 + b % 2, **({"restrict2valid": False} if (a + b) % 3 == 0 else {}))
                elif kind == "grad":
                    if f.nvdim != 1:
                        continue
                    r = f.grad
                elif kind == "laplace":
                    r = f.laplace
                elif kind == "mulnum":
                    r = f * 2.5 if a % 2 else 2.5 * f
                elif kind == "addnum":
                    r = f + 1.5 if a % 2 else 1.5 - f
                elif kind == "pow2":
                    r = f**2
            newM = M
        applied += 1
        tag(kind)
        require(isinstance(r, df.Field), "result-type", f"{kind}: {type(r)}")
        rv = r.valid
        require(isinstance(rv, np.ndarray) and rv.shape == tuple(int(i) for i in r.mesh.n), f"valid-shape:{kind}",
                f"{getattr(rv, 'shape', None)} vs {tuple(r.mesh.n)}")
        if rv.dtype != np.bool_:
            raise Violation(f"valid-dtype:{kind}", f"result validity has dtype {rv.dtype}")
        if not np.array_equal(rv, newM):
            klass = "mapped" if kind in MAPPED else ("binary-and" if kind in BINARY else "unary-passthrough")
            raise Violation(f"{klass}:{kind}", f"{op}: {int(np.sum(rv != newM))} cells differ from the model mask")
        # operands unchanged so far
        for o, bts in zip(operands, before):
            require(o.valid.tobytes() == bts, f"operand-valid-changed:{kind}")
        # ownership: flipping the result's validity must not alter any operand (unary + returns the field itself)
        if kind != "pos":
            saved = rv.copy()
            rv[...] = ~rv
            for o, bts in zip(operands, before):
                if o.valid.tobytes() != bts:
                    raise Violation("ownership", f"changing the validity of the result of {kind!r} changed an operand's "
                                                 f"validity (shared memory)")
            rv[...] = saved
        f, M = r, newM.copy()
    if applied == 0:
        raise Reject()


def nt_program(case):
    n = case["g"]["n"]
    cells = int(np.prod(n))
    M = gen.make_mask(case["mask"], n)
    return cells >= 2 and M.any() and not M.all() and len(case["ops"]) >= 2


# --------------------------------------------------------------------------- setter forms


@st.composite
def setter_case(draw):
    g = draw(gen.geom(ndim=(1, 4), nmax=5, exps=(-9, 2), big_offsets=False, maxcells=200))
    nd = len(g["n"])
    return {"g": g, "k": draw(gen.nvdim_strategy()), "seed": draw(st.integers(0, 2**31)),
            "form": draw(st.sampled_from(["bool-array", "int-array", "float-array", "nested-list", "callable", "true",
                                          "false", "none", "norm", "norm", "bool-array-n1", "field-mask", "field-mask",
                                          "bool-fortran", "bool-strided", "bool-readonly", "uint8-array"])),
            # valid="norm" on integer-typed fields whose squares leave the range of the dtype
            "norm_dtype": draw(st.sampled_from(["float", "float", "int32", "int64", "int16", "complex"])),
            "mask": draw(gen.mask_spec(nd)), "via": draw(st.sampled_from(["init", "setter"])),
            "lens": draw(st.lists(st.sampled_from([0.0, 1e-12, 1e-9, 1e-7, 1e-3, 1.0, 1e6]), min_size=1, max_size=8)),
            "near_threshold": draw(st.booleans())}


def check_setter(case):
    import discretisedfield as df

    g = case["g"]
    n = tuple(g["n"])
    k, form = case["k"], case["form"]
    mesh = gen.build_mesh(g)
    lat = gen.lattice_of(g)
    tag(form)
    M = gen.make_mask(case["mask"], n)
    arr = gen.make_array(case["seed"], (*n, k), "int") + 0.5
    if form == "norm":
        # vector lengths drawn from the gap domain around the 1e-8 threshold
        rng = np.random.default_rng(case["seed"])
        dirs = rng.normal(size=(*n, k))
        dirs /= np.linalg.norm(dirs, axis=-1, keepdims=True)
        lens = np.array(case["lens"])[rng.integers(0, len(case["lens"]), size=n)]
        arr = dirs * lens[..., np.newaxis]
        if case.get("near_threshold"):
            # 30-40 % away from the threshold, with balanced components (every component is below 1e-8 although the
            # length is above it, and vice versa along a single axis)
            near = np.array([0.6e-8, 0.7e-8, 1.3e-8, 1.4e-8, 1.6e-8])[rng.integers(0, 5, size=n)]
            balanced = np.ones((*n, k)) / np.sqrt(k) * rng.choice([-1.0, 1.0], size=(*n, k))
            single = np.zeros((*n, k))
            single[..., 0] = 1.0
            use_bal = rng.random(n) < 0.6
            d2 = np.where(use_bal[..., np.newaxis], balanced, single)
            pick = rng.random(n) < 0.5
            arr = np.where(pick[..., np.newaxis], d2 * near[..., np.newaxis], arr)
            lens = np.where(pick, near, lens)
        model = lens > 1e-8
        val = "norm"
        nt = case.get("norm_dtype", "float")
        if nt in ("int32", "int64", "int16"):
            big = {"int32": 70000, "int64": 3_100_000_000, "int16": 300}[nt]
            srng = np.random.default_rng(case["seed"] + 9)
            arr = (srng.integers(-9, 10, size=(*n, k)) * (big // 9)).astype(nt)
            arr[srng.random(n) < 0.3] = 0
            model = np.any(arr != 0, axis=-1)
            tag("norm-" + nt)
        elif nt == "complex":
            arr = arr * (1 + 0j) if k == 1 else arr.astype(complex) * np.exp(1j * np.arange(k))
            if k >= 2:
                # circularly polarised cells (1, i, 0, ...): the squares of the components cancel, the length is sqrt(2)
                srng = np.random.default_rng(case["seed"] + 11)
                circ = np.zeros(k, dtype=complex)
                circ[0], circ[1] = 1.0, 1j
                pick = srng.random(n) < 0.3
                arr[pick] = circ * srng.choice([1.0, 3.0, 1e-3], size=n)[pick][..., np.newaxis]
                model = np.sqrt(np.sum(np.abs(arr) ** 2, axis=-1)) > 1e-8
            tag("norm-complex")
    elif form == "bool-array":
        val, model = M.copy(), M
    elif form == "bool-fortran":
        val, model = np.asfortranarray(M.copy()), M
    elif form == "bool-strided":
        big = np.zeros(tuple(2 * m for m in n), dtype=bool)
        big[tuple(slice(None, None, 2) for _ in n)] = M
        val, model = big[tuple(slice(None, None, 2) for _ in n)], M
    elif form == "bool-readonly":
        val, model = M.copy(), M
        val.flags.writeable = False
    elif form == "uint8-array":
        val, model = M.astype(np.uint8) * 255, M
    elif form == "bool-array-n1":
        val, model = M.copy()[..., np.newaxis], M
    elif form == "int-array":
        val, model = M.astype(int), M
    elif form == "float-array":
        val, model = M.astype(float) * 2.5, M
    elif form == "nested-list":
        val, model = M.tolist(), M
    elif form == "callable":
        c0 = float(lat.vertex(0, (n[0] + 1) // 2))  # a cell face: every centre is half a cell away from the threshold
        val = lambda p: bool(np.atleast_1d(p)[0] < c0)  # noqa: E731
        model = np.zeros(n, dtype=bool)
        for idx in lat.indices():
            model[idx] = float(lat.centre(idx)[0]) < c0
    elif form == "field-mask":
        # a mask given as a scalar field (a function of position) on a larger region: evaluated at this mesh's cell
        # centres.  Source cells are twice (or 2/3) as large, so no centre lies on a source face; the source has the
        # same cell counts (a "same discretisation" shortcut must not copy its array) or other ones
        nd = len(n)
        fac = 2.0 if case["seed"] % 2 == 0 else 3.0
        n2 = list(n) if case["seed"] % 3 else [max(1, (m * 2) // 3 + 1) for m in n]
        pmin = [float(x) for x in lat.pmin]
        p2 = [pmin[d] + fac * float(lat.pmax[d] - lat.pmin[d]) for d in range(nd)]
        smesh = df.Mesh(region=df.Region(p1=pmin, p2=p2, dims=list(mesh.region.dims), units=list(mesh.region.units)), n=n2)
        srng = np.random.default_rng(case["seed"] + 5)
        sarr = srng.random(tuple(n2)) < 0.5
        if any((2 * i + 1) * n2[d] % (2 * fac * n[d]) == 0 for d in range(nd) for i in range(n[d])):
            raise Reject()  # a centre on a source face
        val = df.Field(smesh, nvdim=1, value=sarr[..., np.newaxis].astype(float))
        model = np.zeros(n, dtype=bool)
        for idx in lat.indices():
            j = tuple(int(((idx[d] + 0.5) / n[d]) / fac * n2[d]) for d in range(nd))
            model[idx] = sarr[j]
        tag("field-mask-same-n" if n2 == list(n) else "field-mask-other-n")
    elif form == "true":
        val, model = True, np.ones(n, dtype=bool)
    elif form == "false":
        val, model = False, np.zeros(n, dtype=bool)
    else:
        val, model = None, np.ones(n, dtype=bool)
    dkw = {"dtype": arr.dtype} if arr.dtype.kind in "ic" else {}  # integer / complex storage is asked for explicitly
    if case["via"] == "init":
        f = df.Field(mesh, nvdim=k, value=np.array(arr, copy=True), valid=val, **dkw)
    else:
        f = df.Field(mesh, nvdim=k, value=np.array(arr, copy=True), valid=~M, **dkw)
        f.valid = val
    require(np.array_equal(f.array, arr), "setter-changed-values")
    v = f.valid
    require(isinstance(v, np.ndarray) and v.shape == n, "setter-shape", f"{getattr(v, 'shape', None)}")
    if v.dtype != np.bool_:
        raise Violation("setter-dtype", f"valid={form}: stored validity has dtype {v.dtype}, not bool")
    if not np.array_equal(v, model):
        sig = "norm-threshold" if form == "norm" else "setter-value"
        raise Violation(sig, f"valid={form}: {int(np.sum(v != model))} cells differ from the model")


SUBS = [
    Sub("program", check_program, program_case(), nontrivial=nt_program, quick=1200, thorough=8000),
    Sub("setter", check_setter, setter_case(), quick=600, thorough=3000),
]


# objects with a history (reads that may fill caches, in-place writes): observables equal those of a fresh object
from pbt import aged as _aged  # noqa: E402

SUBS.append(_aged.sub("C08", quick=250))
ASSUMPTIONS = list(ASSUMPTIONS) + ["aged sub-property: library results are a function of the public primary state "
                                   "(corners, n, names, units, bc, subregions, array, validity, labels, mapping, unit)"]

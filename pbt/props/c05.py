"""C05 - grad, div, curl and Laplacian are the textbook combinations of the derivatives."""
import itertools

import numpy as np
from hypothesis import strategies as st

from pbt import gen
from pbt.core import Reject, Sub, Violation, require, tag

RULE = (
    "Hypothesis-generated scalar/vector fields (random polynomials of total degree <= 2 with drawn integer "
    "coefficients, or random data) on 1-4-d meshes with anisotropic cells, arbitrary dimension names, custom labels "
    "and every permutation of the component-to-axis mapping, masks and periodic directions; oracles: (i) combination "
    "of Field.diff through an independently inverted mapping, (ii) analytic derivatives, (iii) curl grad = 0, "
    "div curl = 0, commutation with rotate90; non-trivial = non-identity mapping or renamed dims or anisotropic cells"
)
ASSUMPTIONS = [
    "Field.diff is decided by C04; rotate90 by C12 (used here only as a cross-check)",
    "analytic tolerance 1e-9*max|values|/h^order; identities 1e-9*max|values|/h_min^2",
]


@st.composite
def vec_case(draw, ndim=(1, 4), nmin=1, nvdim=None, full_valid=False, bc_ok=True, nmax=5):
    g = draw(gen.geom(ndim=ndim, nmin=nmin, nmax=nmax, exps=(-9, 3), big_offsets=False, maxcells=400))
    nd = len(g["n"])
    dims = gen.dims_of(g)
    k = nd if nvdim is None else nvdim
    vd = draw(gen.vdims_strategy(k)) if k > 1 else (draw(st.sampled_from([None, ["s"]])))
    mix = ((draw(st.integers(0, 2**40)) + 0x51ED27) * 0x9E3779B97F4A7C15) % 2**64 >> 11
    if k == nd and k > 1 and mix % 4 == 0:
        # components named like the spatial directions, in another order: the default mapping is positional
        vd = [dims[i] for i in draw(st.permutations(range(nd)))]
    labels = vd or gen.default_vdims(k)
    perm = list(draw(st.permutations(range(nd))))
    default_mapping = k == nd and k > 1 and (mix // 4) % 3 == 0
    if default_mapping:
        perm = list(range(nd))  # no mapping given: component c belongs to axis c, whatever the labels are
    single = [d for d in dims if len(d) == 1 and d.islower()]
    bc = "".join(d for d in single if draw(st.booleans())) if (bc_ok and draw(st.integers(0, 1)) == 0) else ""
    ncoef = 1 + nd + nd * (nd + 1) // 2
    return {"g": g, "k": k, "vdims": vd, "perm": perm, "bc": bc, "default_mapping": default_mapping,
            "coef": [[draw(st.integers(-3, 3)) for _ in range(ncoef)] for _ in range(k)],
            "seed": draw(st.integers(0, 2**31)), "data": draw(st.sampled_from(["poly", "random"])),
            "mask": ["all"] if full_valid else draw(gen.mask_spec(nd)), "labels": labels,
            "offset": draw(st.sampled_from([0, 0, 0, 1e7, -8e8, 3e5]))}


def mapping_of(case, dims):
    """component label -> axis name through the drawn permutation (k == ndim)"""
    labels = case["labels"]
    items = [(labels[c], dims[case["perm"][c]]) for c in range(len(labels))]
    # the dict may list the labels in any order
    import numpy as _np
    _np.random.default_rng(case["seed"]).shuffle(items)
    return dict(items)


def poly_eval(coef, u):
    """u: list of nd arrays (normalised coordinates); returns p, [dp/du_d], [d2p/du_d2]"""
    nd = len(u)
    c0 = coef[0]
    b = coef[1:1 + nd]
    q = {}
    it = iter(coef[1 + nd:])
    for d in range(nd):
        for e in range(d, nd):
            q[(d, e)] = next(it)
    p = c0 + sum(b[d] * u[d] for d in range(nd)) + sum(q[(d, e)] * u[d] * u[e] for (d, e) in q)
    d1 = []
    for d in range(nd):
        v = b[d] + 2 * q[(d, d)] * u[d]
        for e in range(nd):
            if e != d:
                v = v + q[(min(d, e), max(d, e))] * u[e]
        d1.append(v + 0 * u[0])
    d2 = [2 * q[(d, d)] + 0 * u[0] for d in range(nd)]
    return p, d1, d2


def build(case, with_mapping=True):
    import discretisedfield as df

    g = case["g"]
    n = tuple(g["n"])
    nd, k = len(n), case["k"]
    mesh = gen.build_mesh(g, bc=case["bc"])
    dims = gen.dims_of(g)
    grids = np.meshgrid(*[np.arange(m) + 0.5 for m in n], indexing="ij")
    arr = np.empty((*n, k))
    d1 = np.empty((*n, k, nd))
    d2 = np.empty((*n, k, nd))
    for c in range(k):
        coef = list(case["coef"][c])
        if case.get("zero_periodic"):
            # polynomial made constant along periodic axes (it stays exactly differentiable on the ring)
            per = [d for d in range(nd) if dims[d] in case["bc"]]
            pos = 1 + nd
            for d in range(nd):
                if d in per:
                    coef[1 + d] = 0
                for e in range(d, nd):
                    if d in per or e in per:
                        coef[pos] = 0
                    pos += 1
        p, a1, a2 = poly_eval(coef, grids)
        arr[..., c] = p
        for d in range(nd):
            d1[..., c, d] = a1[d] / float(mesh.cell[d])
            d2[..., c, d] = a2[d] / float(mesh.cell[d]) ** 2
    if case.get("complex"):
        # complex polynomial: imaginary part built from the coefficient sets read backwards
        ai = np.empty((*n, k)); a1i = np.empty((*n, k, nd)); a2i = np.empty((*n, k, nd))
        for c in range(k):
            p_, b1, b2 = poly_eval(list(reversed(case["coef"][(c + 1) % k])), grids)
            ai[..., c] = p_
            for d in range(nd):
                a1i[..., c, d] = b1[d] / float(mesh.cell[d])
                a2i[..., c, d] = b2[d] / float(mesh.cell[d]) ** 2
        arr = arr + 1j * ai
        d1 = d1 + 1j * a1i
        d2 = d2 + 1j * a2i
    if case["data"] == "random":
        arr = gen.make_array(case["seed"], (*n, k), "int")
        d1 = d2 = None
    kw = {}
    if case["vdims"]:
        kw["vdims"] = list(case["vdims"])
    if with_mapping and not case.get("default_mapping") and k == nd and (k > 1 or case["vdims"]):
        kw["vdim_mapping"] = mapping_of(case, dims)
    if case.get("unlabelled") and k > 1:
        kw = {"vdims": []}  # a vector field whose components carry no labels (and hence no mapping)
    if case.get("offset"):
        # a large constant part (Ms, a far-away coordinate field): the derivatives are those of the polynomial
        arr = arr + case["offset"]
    f = df.Field(mesh, nvdim=k, value=np.array(arr, copy=True), valid=gen.make_mask(case["mask"], n),
                 dtype=np.complex128 if case.get("complex") else None, **kw)
    return mesh, dims, f, arr, d1, d2


def scalar_of(mesh, col, valid):
    import discretisedfield as df

    return df.Field(mesh, nvdim=1, value=col[..., np.newaxis], valid=valid)


def close(a, b, scale):
    return np.allclose(a, b, rtol=1e-12, atol=1e-12 * scale)


def nontrivial(case):
    g = case["g"]
    nd = len(g["n"])
    ident = case["perm"] == list(range(nd))
    lat = gen.lattice_of(g)
    cells = [float(c) for c in lat.cell]
    aniso = nd > 1 and max(cells) / min(cells) > 1.1
    return (not ident) or g.get("dims") is not None or aniso


# --------------------------------------------------------------------------- (i) combination


def check_combination(case):
    mesh, dims, f, arr, _, _ = build(case)
    nd, k = len(dims), case["k"]
    valid = f.valid
    hmin = float(min(mesh.cell))
    scale = max(1.0, float(np.max(np.abs(arr)))) / hmin**2
    tag(f"ndim={nd}")
    tag("bc" if case["bc"] else "open")
    tag("masked" if not valid.all() else "valid")
    comp_on_axis = {case["perm"][c]: c for c in range(k)} if k == nd else {}
    # laplace: any nvdim
    lap = f.laplace
    require(lap.nvdim == k and lap.array.shape == arr.shape, "laplace-shape")
    for c in range(k):
        ref = sum(scalar_of(mesh, arr[..., c], valid).diff(dims[j], order=2).array[..., 0] for j in range(nd))
        if not close(lap.array[..., c], ref, scale):
            raise Violation("laplace-combination", f"component {c} differs from the sum of second derivatives")
    require(np.array_equal(lap.valid, valid), "laplace-valid")
    if k == 1:
        gr = f.grad
        require(gr.nvdim == nd and gr.array.shape == (*arr.shape[:-1], nd), "grad-shape", f"{gr.array.shape}")
        for j in range(nd):
            ref = f.diff(dims[j]).array[..., 0]
            if not close(gr.array[..., j], ref, scale):
                raise Violation("grad-combination", f"component {j} is not the derivative along axis {j}")
        require(np.array_equal(gr.valid, valid), "grad-valid")
    unlabelled = bool(case.get("unlabelled")) and k > 1
    if unlabelled:
        tag("unlabelled")
        require(f.vdims is None and not f.vdim_mapping, "unlabelled-build", f"{f.vdims} {f.vdim_mapping}")
        for opname in (["div"] if k == nd else []) + (["curl"] if k == 3 and nd == 3 else []):
            try:
                getattr(f, opname)
            except Exception:  # noqa: BLE001 - components not mapped onto the mesh axes: refused
                continue
            raise Violation("unmapped-accepted", f"{opname} of a field without labels and mapping")
        require(np.array_equal(f.array, arr), "operand-modified")
        return
    if k == nd and k > 1:
        dv = f.div
        require(dv.nvdim == 1, "div-shape")
        ref = sum(scalar_of(mesh, arr[..., comp_on_axis[j]], valid).diff(dims[j]).array[..., 0] for j in range(nd))
        if not close(dv.array[..., 0], ref, scale):
            raise Violation("div-combination", f"div differs from sum_j d_j v_(component mapped to j); perm={case['perm']}")
    if k == 3 and nd == 3:
        cu = f.curl
        require(cu.nvdim == 3, "curl-shape")
        v = [scalar_of(mesh, arr[..., comp_on_axis[j]], valid) for j in range(3)]
        D = lambda s, j: s.diff(dims[j]).array[..., 0]  # noqa: E731
        ref = [D(v[2], 1) - D(v[1], 2), D(v[0], 2) - D(v[2], 0), D(v[1], 0) - D(v[0], 1)]
        for j in range(3):
            if not close(cu.array[..., j], ref[j], scale):
                raise Violation("curl-combination", f"curl component {j} wrong; dims={dims} perm={case['perm']}")
    require(np.array_equal(f.array, arr), "operand-modified")


# --------------------------------------------------------------------------- (ii) analytic


def check_analytic(case):
    mesh, dims, f, arr, d1, d2 = build(case)
    nd, k = len(dims), case["k"]
    h = [float(c) for c in mesh.cell]
    vmax = max(1.0, float(np.max(np.abs(arr))))
    tol1 = 1e-9 * vmax / min(h)
    tol2 = 1e-9 * vmax / min(h) ** 2
    comp_on_axis = {case["perm"][c]: c for c in range(k)} if k == nd else {}
    lap = f.laplace
    for c in range(k):
        if not np.allclose(lap.array[..., c], d2[..., c, :].sum(axis=-1), rtol=1e-9, atol=tol2):
            raise Violation("laplace-exact", f"component {c}: Laplacian of a degree-2 polynomial is not exact")
    if k == 1:
        gr = f.grad
        for j in range(nd):
            if not np.allclose(gr.array[..., j], d1[..., 0, j], rtol=1e-9, atol=tol1):
                raise Violation("grad-exact", f"axis {j}")
    if k == nd and k > 1:
        ref = sum(d1[..., comp_on_axis[j], j] for j in range(nd))
        if not np.allclose(f.div.array[..., 0], ref, rtol=1e-9, atol=tol1):
            raise Violation("div-exact", f"dims={dims} perm={case['perm']}")
    if k == 3 and nd == 3:
        a = comp_on_axis
        ref = [d1[..., a[2], 1] - d1[..., a[1], 2], d1[..., a[0], 2] - d1[..., a[2], 0],
               d1[..., a[1], 0] - d1[..., a[0], 1]]
        cu = f.curl
        for j in range(3):
            if not np.allclose(cu.array[..., j], ref[j], rtol=1e-9, atol=tol1):
                raise Violation("curl-exact", f"component {j}; dims={dims} perm={case['perm']}")


# --------------------------------------------------------------------------- (iii) identities / rotation


def check_identities(case):
    mesh, dims, f, arr, _, _ = build(case)
    h = float(min(mesh.cell))
    tol = 1e-9 * max(1.0, float(np.max(np.abs(arr)))) / h**2
    k = case["k"]
    if k == 1:
        try:
            cg = f.grad.curl
        except Exception as e:  # noqa: BLE001
            raise Violation("grad-not-composable", f"f.grad.curl raises {type(e).__name__}: {e}") from None
        if np.max(np.abs(cg.array)) > tol:
            raise Violation("curl-grad-nonzero", f"max |curl grad f| = {np.max(np.abs(cg.array))} (tol {tol})")
    else:
        try:
            dc = f.curl.div
        except Exception as e:  # noqa: BLE001
            raise Violation("curl-not-composable", f"f.curl.div raises {type(e).__name__}: {e}") from None
        if np.max(np.abs(dc.array)) > tol:
            raise Violation("div-curl-nonzero", f"max |div curl v| = {np.max(np.abs(dc.array))} (tol {tol})")


@st.composite
def rot_case(draw):
    """constructed, not filtered: the operator fits (nvdim, ndim) and the two rotated axes are both open or both
    periodic (rotate90 documents that it does not move the bc string)"""
    op = draw(st.sampled_from(["grad", "div", "curl", "laplace", "laplace"]))
    ndim = 3 if op == "curl" else (2, 4)
    c = draw(vec_case(ndim=ndim, full_valid=True, nmax=4))
    nd = len(c["g"]["n"])
    dims = gen.dims_of(c["g"])
    a = draw(st.integers(0, nd - 1))
    b = draw(st.integers(0, nd - 1).filter(lambda x: x != a))
    c["ax"] = [a, b]
    per = [d for d in dims if len(d) == 1 and d in c["bc"]]  # periodic directions (single-letter names only)
    if (dims[a] in per) != (dims[b] in per):
        both_ok = all(len(d) == 1 and d.islower() for d in (dims[a], dims[b]))
        if both_ok and draw(st.booleans()):  # make both periodic, else both open
            per = [d for d in dims if d in per or d in (dims[a], dims[b])]
        else:
            per = [d for d in per if d not in (dims[a], dims[b])]
    c["bc"] = "".join(per)
    c["kturn"] = draw(st.integers(1, 3))
    c["op"] = op
    if op == "grad" or (op == "laplace" and draw(st.booleans())):
        c["k"] = 1
        c["coef"] = c["coef"][:1]
        c["labels"] = None
        c["vdims"] = None
    return c


def check_rotate_commute(case):
    g = case["g"]
    dims = gen.dims_of(g)
    a, b = dims[case["ax"][0]], dims[case["ax"][1]]
    # rotate90 does not move the bc string: both rotated axes periodic or both open
    if (a in case["bc"]) != (b in case["bc"]):
        raise Reject()
    mesh, dims, f, arr, _, _ = build(case)
    nd, k, op = len(dims), case["k"], case["op"]
    if op == "grad" and k != 1:
        raise Reject()
    if op == "div" and not (k == nd and k > 1):
        raise Reject()
    if op == "curl" and not (k == 3 and nd == 3):
        raise Reject()
    tag(op)
    kt = case["kturn"]
    apply = lambda x: getattr(x, op)  # noqa: E731
    left = apply(f.rotate90(a, b, k=kt))
    right = apply(f).rotate90(a, b, k=kt)
    h = float(min(mesh.cell))
    tol = 1e-9 * max(1.0, float(np.max(np.abs(arr)))) / h**2
    require(left.mesh.allclose(right.mesh), "rotate-commute-mesh")
    if left.array.shape != right.array.shape or np.max(np.abs(left.array - right.array)) > tol:
        raise Violation(f"rotate-commute-{op}", f"{op}(rotate90(f)) != rotate90({op}(f)) for axes ({a},{b}) k={kt}, "
                                                f"perm={case['perm']}, labels={case['labels']}")


# --------------------------------------------------------------------------- refusals


@st.composite
def refuse_case(draw):
    c = draw(vec_case(ndim=(1, 4)))
    nd = len(c["g"]["n"])
    c["kind"] = draw(st.sampled_from(["div-nvdim", "div-empty-mapping", "div-partial-mapping", "div-nonaxis",
                                      "curl-ndim", "curl-nvdim", "curl-empty-mapping", "curl-nonaxis", "grad-vector"]))
    c["k2"] = draw(st.integers(1, 4))
    c["which"] = draw(st.integers(0, 3))
    return c


def check_refuse(case):
    import discretisedfield as df

    g = case["g"]
    n = tuple(g["n"])
    nd = len(n)
    mesh = gen.build_mesh(g, bc=case["bc"])
    dims = gen.dims_of(g)
    kind = case["kind"]
    tag(kind)
    lab = lambda k: (gen.VDIM_POOLS[1][:k] if k > 1 else None)  # noqa: E731

    def mk(k, mapping):
        return df.Field(mesh, nvdim=k, value=gen.make_array(case["seed"], (*n, k)), vdims=lab(k), vdim_mapping=mapping)

    if kind == "div-nvdim":
        k = case["k2"]
        if k == nd:
            raise Reject()
        f, op = mk(k, {}), "div"
    elif kind in ("div-empty-mapping", "div-partial-mapping", "div-nonaxis"):
        if nd == 1:
            raise Reject()
        labels = lab(nd)
        if kind == "div-empty-mapping":
            m = {}
        elif kind == "div-partial-mapping":
            m = {l: (d if i != case["which"] % nd else None) for i, (l, d) in enumerate(zip(labels, dims))}
        else:
            m = {l: (d if i != case["which"] % nd else "nonaxis") for i, (l, d) in enumerate(zip(labels, dims))}
        f, op = mk(nd, m), "div"
    elif kind == "curl-ndim":
        if nd == 3:
            raise Reject()
        f, op = mk(3, {}), "curl"
    elif kind == "curl-nvdim":
        if nd != 3 or case["k2"] == 3:
            raise Reject()
        f, op = mk(case["k2"], {}), "curl"
    elif kind in ("curl-empty-mapping", "curl-nonaxis"):
        if nd != 3:
            raise Reject()
        labels = lab(3)
        m = {} if kind == "curl-empty-mapping" else {l: (d if i != case["which"] % 3 else "nonaxis")
                                                     for i, (l, d) in enumerate(zip(labels, dims))}
        f, op = mk(3, m), "curl"
    else:
        k = max(2, case["k2"])
        f, op = mk(k, None if k == nd else {}), "grad"
    try:
        r = getattr(f, op)
    except Exception:  # noqa: BLE001 - any refusal
        return
    raise Violation(f"not-refused:{kind}", f"{op} accepted; result nvdim {r.nvdim}")


def nt_any(case):
    return True


SUBS = [
    Sub("combination", check_combination, vec_case(), nontrivial=nontrivial, quick=250, thorough=1500),
    Sub("combination-unlabelled", check_combination,
        st.one_of(vec_case(), vec_case(nvdim=2, ndim=(3, 4)), vec_case(nvdim=3, ndim=(1, 2))).map(lambda c: dict(c, unlabelled=True)),
        nontrivial=nontrivial, quick=60, thorough=500),
    Sub("combination-scalar", check_combination, vec_case(nvdim=1), nontrivial=nontrivial, quick=120, thorough=800),
    Sub("combination-nvdim", check_combination, vec_case(nvdim=2, ndim=(3, 4)), nontrivial=nontrivial, quick=60,
        thorough=400),
    Sub("analytic", check_analytic, vec_case(nmin=3, full_valid=True, bc_ok=False).map(lambda c: dict(c, data="poly")),
        nontrivial=nontrivial, quick=250, thorough=1500),
    Sub("analytic-partly-periodic", check_analytic,
        vec_case(nmin=3, full_valid=True, bc_ok=True, ndim=(2, 4)).map(lambda c: dict(c, data="poly", zero_periodic=True)),
        nontrivial=nontrivial, quick=200, thorough=1200),
    Sub("analytic-complex", check_analytic,
        st.one_of(vec_case(nmin=3, full_valid=True, bc_ok=False), vec_case(nmin=3, nvdim=1, full_valid=True, bc_ok=False))
        .map(lambda c: dict(c, data="poly", complex=True)), nontrivial=nontrivial, quick=150, thorough=1000),
    Sub("analytic-scalar", check_analytic,
        vec_case(nmin=3, nvdim=1, full_valid=True, bc_ok=False).map(lambda c: dict(c, data="poly")),
        nontrivial=nontrivial, quick=120, thorough=800),
    Sub("identities", check_identities, st.one_of(vec_case(ndim=3, full_valid=True), vec_case(ndim=3, nvdim=1, full_valid=True)),
        nontrivial=nontrivial, quick=150, thorough=1000),
    Sub("rotate-commute", check_rotate_commute, rot_case(), nontrivial=nontrivial, quick=300, thorough=2000),
    Sub("refuse", check_refuse, refuse_case(), quick=300, thorough=1500),
]


# objects with a history (reads that may fill caches, in-place writes): observables equal those of a fresh object
from pbt import aged as _aged  # noqa: E402

SUBS.append(_aged.sub("C05", quick=250))
ASSUMPTIONS = list(ASSUMPTIONS) + ["aged sub-property: library results are a function of the public primary state "
                                   "(corners, n, names, units, bc, subregions, array, validity, labels, mapping, unit)"]

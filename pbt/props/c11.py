"""C11 - field FFTs are the discrete Fourier transform at the k-mesh's frequencies."""
import itertools

import numpy as np
from hypothesis import strategies as st

from pbt import gen
from pbt.core import Reject, Sub, Violation, require, tag

RULE = (
    "Hypothesis-generated real/complex fields (nvdim 1-4) on 1-4-d meshes with every mix of even, odd and single-cell "
    "axes (n 1..6), anisotropic cells, any offset, renamed dims/units, custom labels/mappings x {fftn, ifftn, rfftn, "
    "irfftn with/without shape}; plus complete enumeration of all shapes with prod(n) <= 36 (64 thorough); oracle = "
    "direct evaluation of sum f[r] exp(-2 pi i k.r) at the k-cell centres reported by the returned mesh, textbook "
    "frequency formula, inverse/half-spectrum/DC/linearity relations; non-trivial = >= 2 axes of different parity or "
    "a single-cell axis or an odd last axis"
)
ASSUMPTIONS = [
    "reference DFT evaluated from the definition (separable per-axis phase matrices), never via fftfreq/fftshift",
    "tolerance 1e-10 * N * max|f|",
]


@st.composite
def fft_case(draw):
    # from femtoseconds / sub-picometre cells (1e-15) to kilometres
    g = draw(gen.geom(ndim=(1, 4), nmax=6, exps=(-15, 3), maxcells=300, tol=False))
    nd = len(g["n"])
    k = draw(st.integers(1, 4))
    return {"g": g, "k": k, "vdims": draw(gen.vdims_strategy(k)), "seed": draw(st.integers(0, 2**31)),
            "seed2": draw(st.integers(0, 2**31)), "cplx": draw(st.booleans()),
            "mapping": draw(st.sampled_from(["default", "perm", "empty"])), "perm_seed": draw(st.integers(0, 99)),
            "unit": draw(st.sampled_from(gen.FIELD_UNITS)),
            # storage precision: double, or single (float32 / complex64 fields are transformed in single precision)
            "single": draw(st.integers(0, 4)) == 0}


def enum_shapes(tier):
    top = 36 if tier == "quick" else 64
    for nd in (1, 2, 3, 4):
        for n in itertools.product(range(1, 7), repeat=nd):
            if int(np.prod(n)) > top:
                continue
            p1 = [0.3 * (d + 1) for d in range(nd)]
            p2 = [p1[d] + n[d] * (0.7 + 0.2 * d) for d in range(nd)]
            yield {"g": {"p1": p1, "p2": p2, "n": list(n), "dims": None, "units": None, "tol": None, "exp": 0},
                   "k": 1 + (sum(n) % 2), "vdims": None, "seed": sum(n) * 7 + nd, "seed2": 5, "cplx": bool(sum(n) % 3 == 0),
                   "mapping": "default", "perm_seed": 0, "unit": None}


def build(case, seedkey="seed", force_real=False):
    import discretisedfield as df

    g = case["g"]
    n = tuple(g["n"])
    k = case["k"]
    mesh = gen.build_mesh(g)
    cplx = case["cplx"] and not force_real
    arr = gen.make_array(case[seedkey], (*n, k), "int", "complex" if cplx else "float")
    kw = {}
    if case.get("vdims"):
        kw["vdims"] = list(case["vdims"])
    vd = case.get("vdims") or gen.default_vdims(k)
    dims = gen.dims_of(g)
    if vd and case.get("mapping", "default") != "default":
        if case["mapping"] == "empty":
            kw["vdim_mapping"] = {}
        else:
            rng = np.random.default_rng(case["perm_seed"])
            tgt = list(dims) + [None] * max(0, k - len(dims))
            rng.shuffle(tgt)
            kw["vdim_mapping"] = {v: t for v, t in zip(vd, tgt) if t is not None} if len(dims) >= k else {}
            if len(kw["vdim_mapping"]) != k:
                kw["vdim_mapping"] = {}
            kw["vdim_mapping"] = gen.shuffled_mapping(kw["vdim_mapping"], case["perm_seed"] + 3)
    dt = np.complex128 if cplx else None
    if case.get("single"):
        dt = np.complex64 if cplx else np.float32  # small integers: exactly representable
    elif not cplx and np.all(arr == np.round(arr)):
        # a real field whose storage type was asked for explicitly, in any documented spelling: the spectrum is complex
        dt = [None, None, np.float64, "float64", float, np.int64, np.dtype("float64")][case["seed"] % 7]
    f = df.Field(mesh, nvdim=k, value=np.array(arr, copy=True), dtype=dt, unit=case["unit"], **kw)
    return mesh, f, arr


def nontrivial(case):
    n = case["g"]["n"]
    par = {x % 2 for x in n if x > 1}
    return len(par) == 2 or 1 in n or (n[-1] % 2 == 1)


def centres(mesh, d):
    lo, hi, k = float(mesh.region.pmin[d]), float(mesh.region.pmax[d]), int(mesh.n[d])
    c = (hi - lo) / k
    return np.array([lo + (j + 0.5) * c for j in range(k)])


def direct_dft(arr, cell, kmesh, sign=-1.0):
    """sum_r f[r] exp(sign 2 pi i k.r), r = index*cell, k = centres of kmesh; separable evaluation"""
    out = arr.astype(complex)
    nd = arr.ndim - 1
    for d in range(nd):
        r = np.arange(arr.shape[d]) * cell[d]
        kk = centres(kmesh, d)
        W = np.exp(sign * 2j * np.pi * np.outer(kk, r))  # (nk, nr)
        out = np.moveaxis(np.tensordot(W, out, axes=([1], [d])), 0, d)
    return out


def expected_freqs(n, cell, half=False):
    if half:
        return np.array([j / (n * cell) for j in range(n // 2 + 1)])
    return np.array([(j - n // 2) / (n * cell) for j in range(n)])


def check_forward(case):
    mesh, f, arr = build(case)
    g = case["g"]
    n = tuple(g["n"])
    nd, k = len(n), case["k"]
    cell = [float(c) for c in mesh.cell]
    dims = list(mesh.region.dims)
    units = list(mesh.region.units)
    N = int(np.prod(n))
    tol = (1e-5 if case.get("single") else 1e-10) * N * max(1.0, float(np.max(np.abs(arr))))
    tag(f"ndim={nd}")
    if 1 in n:
        tag("single-cell-axis")
    snap = (f.array.tobytes(), f.valid.tobytes())
    kinds = ["fftn"] + ([] if case["cplx"] else ["rfftn"])
    for kind in kinds:
        F = getattr(f, kind)()
        km = F.mesh
        require(f.array.tobytes() == snap[0], f"operand-modified-{kind}", "the transform changed the field's own values")
        # names / units
        require(list(km.region.dims) == [f"k_{d}" for d in dims], f"{kind}-dims", f"{km.region.dims}")
        require(list(km.region.units) == [f"({u})" + "$^{-1}$" for u in units], f"{kind}-units", f"{km.region.units}")
        # frequencies
        for d in range(nd):
            half = kind == "rfftn" and d == nd - 1
            want = expected_freqs(n[d], cell[d], half)
            got = centres(km, d)
            if len(got) != len(want):
                raise Violation(f"{kind}-kmesh-n", f"axis {d}: {len(got)} k-cells, expected {len(want)}")
            scale = 1.0 / cell[d]
            if np.max(np.abs(got - want)) > 1e-9 * scale:
                sig = "frequencies-single-cell-axis" if n[d] == 1 else f"{kind}-frequencies"
                raise Violation(sig, f"axis {d} (n={n[d]}, cell={cell[d]}): k-cell centres {got} expected {want}")
            if n[d] > 1 or True:
                width = (float(km.region.pmax[d]) - float(km.region.pmin[d])) / len(got)
                require(abs(width - 1.0 / (n[d] * cell[d])) <= 1e-9 * scale, f"{kind}-kcell-size", f"axis {d}")
        # values: the definition at the reported k-cell centres
        ref = direct_dft(arr, cell, km)
        require(F.array.shape == ref.shape, f"{kind}-shape", f"{F.array.shape} vs {ref.shape}")
        if np.max(np.abs(F.array - ref)) > tol:
            i = np.unravel_index(np.argmax(np.abs(F.array - ref)), ref.shape)
            raise Violation(f"{kind}-values", f"cell {i}: {F.array[i]} vs direct DFT {ref[i]}")
        # DC cell
        idx = tuple((0 if (kind == "rfftn" and d == nd - 1) else n[d] // 2) for d in range(nd))
        if np.max(np.abs(F.array[idx] - arr.sum(axis=tuple(range(nd))))) > tol:
            raise Violation(f"{kind}-dc", f"zero-frequency cell {idx} holds {F.array[idx]}, sum is {arr.sum(axis=tuple(range(nd)))}")
        # labels / mapping
        if f.vdims is not None:
            require(list(F.vdims) == [f"ft_{v}" for v in f.vdims], f"{kind}-labels", f"{F.vdims}")
            want_map = {f"ft_{v}": f"k_{t}" for v, t in f.vdim_mapping.items()}
            require(dict(F.vdim_mapping) == want_map, f"{kind}-mapping", f"{F.vdim_mapping} vs {want_map}")
        else:
            require(F.vdims is None, f"{kind}-labels-scalar")
        require(F.unit == f.unit, f"{kind}-unit")
        require(F.nvdim == k, f"{kind}-nvdim")
    if not case["cplx"]:
        # half spectrum
        full, halfF = f.fftn().array, f.rfftn().array
        nl = n[-1]
        for m in range(nl // 2 + 1):
            j = (m + nl // 2) % nl
            if np.max(np.abs(halfF[..., m, :] - full[..., j, :])) > tol:
                raise Violation("half-spectrum", f"rfftn last-axis index {m} differs from fftn index {j}")


def check_inverse(case):
    import discretisedfield as df

    mesh, f, arr = build(case)
    g = case["g"]
    n = tuple(g["n"])
    nd, k = len(n), case["k"]
    N = int(np.prod(n))
    tol = (1e-5 if case.get("single") else 1e-10) * N * max(1.0, float(np.max(np.abs(arr))))
    cell = np.array([float(c) for c in mesh.cell])

    def same_geometry(m2, what, n_expect=n):
        require([int(i) for i in m2.n] == list(n_expect), f"{what}-n", f"{m2.n} vs {n_expect}")
        c2 = np.array([float(c) for c in m2.cell])
        if np.max(np.abs(c2 - cell) / cell) > 1e-9:
            raise Violation(f"{what}-cell", f"{c2} vs {cell}")
        ctr = (np.asarray(m2.region.pmin, dtype=float) + np.asarray(m2.region.pmax, dtype=float)) / 2
        if np.max(np.abs(ctr) / (cell * np.array(n_expect))) > 1e-9:
            raise Violation(f"{what}-not-centred", f"centre {ctr}")
        require(list(m2.region.dims) == list(mesh.region.dims), f"{what}-dims", f"{m2.region.dims}")
        require(list(m2.region.units) == list(mesh.region.units), f"{what}-units", f"{m2.region.units}")

    def snap(x):
        return (x.array.tobytes(), x.mesh.region.pmin.tobytes(), x.mesh.region.pmax.tobytes(), tuple(int(i) for i in x.mesh.n),
                tuple(x.mesh.region.dims), None if x.vdims is None else tuple(x.vdims))

    F = f.fftn()
    sF = snap(F)
    b = F.ifftn()
    require(snap(F) == sF, "inverse-modified-operand", "ifftn changed the k-space field or its mesh")
    same_geometry(b.mesh, "ifftn")
    if np.max(np.abs(b.array - arr)) > tol:
        raise Violation("inverse-c2c", "ifftn(fftn(f)) != f")
    if f.vdims is not None:
        require(list(b.vdims) == list(f.vdims), "inverse-labels", f"{b.vdims}")
        require(dict(b.vdim_mapping) == dict(f.vdim_mapping), "inverse-mapping", f"{b.vdim_mapping} vs {f.vdim_mapping}")
    # mesh-level transforms agree with the field-level ones
    require(mesh.fftn() == F.mesh, "mesh-fftn-consistent")
    require(F.mesh.ifftn().allclose(b.mesh), "mesh-ifftn-consistent")
    if not case["cplx"]:
        R = f.rfftn()
        sR = snap(R)
        R.irfftn()  # without a shape first: the k-space field must be reusable afterwards
        require(snap(R) == sR, "inverse-modified-operand", f"irfftn() changed the k-space field or its mesh (n now {R.mesh.n})")
        r = R.irfftn(shape=n)
        require(snap(R) == sR, "inverse-modified-operand", "irfftn(shape) changed the k-space field or its mesh")
        same_geometry(r.mesh, "irfftn-shape")
        if np.max(np.abs(r.array - arr)) > tol:
            raise Violation("inverse-r2c-shape", f"irfftn(rfftn(f), shape=n) != f for n={n}")
        if n[-1] % 2 == 0:
            r2 = R.irfftn()
            same_geometry(r2.mesh, "irfftn-noshape")
            if np.max(np.abs(r2.array - arr)) > tol:
                raise Violation("inverse-r2c-noshape", f"irfftn(rfftn(f)) != f for even last axis, n={n}")
        elif n[-1] > 1:
            r2 = R.irfftn()
            n2 = list(n)
            n2[-1] = 2 * (int(R.mesh.n[-1]) - 1)
            require([int(i) for i in r2.mesh.n] == n2, "irfftn-noshape-n", f"{r2.mesh.n} vs {n2}")
        require(mesh.fftn(rfft=True) == R.mesh, "mesh-rfftn-consistent")
    # linearity and per-component
    _, g2, arr2 = build(case, "seed2")
    comb = (2.0 * f + (-3.0) * g2).fftn().array
    if np.max(np.abs(comb - (2.0 * F.array - 3.0 * g2.fftn().array))) > 10 * tol:
        raise Violation("nonlinear")
    if k > 1:
        for c, lab in enumerate(f.vdims):
            comp = getattr(f, lab).fftn().array[..., 0]
            if np.max(np.abs(comp - F.array[..., c])) > tol:
                raise Violation("per-component", f"component {lab}")
    # position independence
    vec = [3.0 * float(c) for c in mesh.cell]
    f2 = df.Field(mesh.translate(vec), nvdim=k, value=np.array(arr, copy=True), dtype=f.array.dtype)
    if np.max(np.abs(f2.fftn().array - F.array)) > tol:
        raise Violation("position-dependent")


SUBS = [
    Sub("forward", check_forward, fft_case(), nontrivial=nontrivial, quick=350, thorough=2500),
    Sub("inverse", check_inverse, fft_case(), nontrivial=nontrivial, quick=350, thorough=2500),
    Sub("forward-all-shapes", check_forward, enum=enum_shapes, nontrivial=nontrivial, enum_shards=lambda t: 3 if t == "quick" else 8),
    Sub("inverse-all-shapes", check_inverse, enum=enum_shapes, nontrivial=nontrivial, enum_shards=lambda t: 3 if t == "quick" else 8),
]


# objects with a history (reads that may fill caches, in-place writes): observables equal those of a fresh object
from pbt import aged as _aged  # noqa: E402

SUBS.append(_aged.sub("C11", quick=250))
ASSUMPTIONS = list(ASSUMPTIONS) + ["aged sub-property: library results are a function of the public primary state "
                                   "(corners, n, names, units, bc, subregions, array, validity, labels, mapping, unit)"]

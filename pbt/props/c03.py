"""C03 - field algebra is cell-wise numpy algebra on one mesh; operands stay untouched."""
import numpy as np
from hypothesis import strategies as st

from pbt import gen
from pbt.core import Reject, Sub, Violation, require, tag

RULE = (
    "Hypothesis-generated expression trees (depth <= 3) over vector fields A,B,C (nvdim k), scalar fields S,T, "
    "Python numbers, constant vectors and per-cell arrays on 1-4-d meshes with int/float/complex dtypes, masks, "
    "custom labels and permuted mappings, both operand orders; oracle = the same tree on raw numpy arrays; "
    "non-trivial = depth >= 2 or reflected operator or mixed dtypes or scalar-with-vector; distinct = SHA-1"
)
ASSUMPTIONS = [
    "values compared at rtol 1e-12 (equal_nan): numpy call forms differ in the last ulp",
    "ufunc results and numpy-scalar left operands are checked for values only (DESIGN section 6)",
    "vector fields in one expression share labels and mapping (one vector space)",
]

UNARY = ["neg", "pos", "abs", "real", "imag", "conj", "fabs", "phase", "sin", "exp", "sqrtabs"]
BIN = ["add", "sub", "mul", "div"]


@st.composite
def tree(draw, depth, want, k, cplx):
    """want: 'V' vector field result (nvdim k) or 'S' scalar field result"""
    if depth == 0 or draw(st.integers(0, 4)) == 0:
        return [draw(st.sampled_from(["A", "B", "C"] if want == "V" else ["S", "T"]))]
    choice = draw(st.integers(0, 9))
    if choice <= 1:
        ops = ["neg", "pos", "abs", "fabs", "sin", "sqrtabs", "real", "conj"]
        if cplx:
            ops += ["imag", "phase"]
        return [draw(st.sampled_from(ops)), draw(tree(depth - 1, want, k, cplx))]
    if choice == 2:
        return ["pow", draw(tree(depth - 1, want, k, cplx)), draw(st.integers(0, 3))]
    if want == "S" and choice == 3 and k > 1:
        other = draw(st.one_of(tree(depth - 1, "V", k, cplx), st.just(["vec", draw(vec(k, cplx))])))
        return ["dot", draw(tree(depth - 1, "V", k, cplx)), other]
    if want == "V" and choice == 3 and k == 3:
        other = draw(st.one_of(tree(depth - 1, "V", k, cplx), st.just(["vec", draw(vec(k, cplx))])))
        return ["cross", draw(tree(depth - 1, "V", k, cplx)), other]
    op = draw(st.sampled_from(BIN + ["npadd", "npmul"]))
    left = draw(tree(depth - 1, want, k, cplx))
    # the other operand: field of same kind, scalar field, number, vector, array
    if want == "V":
        okind = draw(st.sampled_from(["V", "S", "num", "vec", "arr", "npnum"]))
    else:
        okind = draw(st.sampled_from(["S", "S", "num", "arr1", "npnum"]))
    if okind in ("V", "S"):
        other = draw(tree(depth - 1, okind, k, cplx))
    elif okind in ("num", "npnum"):
        v = draw(st.sampled_from([2, -3, 0.5, -1.25, 4.0, 7])) if not (cplx and draw(st.booleans())) else None
        other = [okind, v] if v is not None else ["cnum", draw(st.integers(-3, 3)), draw(st.integers(1, 3))]
    elif okind == "vec":
        other = ["vec", draw(vec(k, cplx))]
    else:
        other = [okind, draw(st.integers(0, 2**31))]
    if op in ("npadd", "npmul") and other[0] in ("vec", "npnum"):
        other = ["num", 2]
    swap = draw(st.booleans())
    if op in ("npadd", "npmul"):
        swap = swap and other[0] in ("A", "B", "C", "S", "T") or (swap and other[0] not in ("num", "cnum", "vec", "arr", "arr1"))
    return [op, other, left] if swap else [op, left, other]


@st.composite
def vec(draw, k, cplx):
    return [draw(st.integers(-4, 4)) if draw(st.booleans()) else draw(st.integers(-20, 20)) / 4 for _ in range(k)]


@st.composite
def expr_case(draw):
    g = draw(gen.geom(nmax=4, exps=(-9, 3), maxcells=120))
    nd = len(g["n"])
    k = draw(gen.nvdim_strategy())
    cplx = draw(st.integers(0, 3)) == 0
    want = draw(st.sampled_from(["V", "S"])) if k > 1 else "S"
    dtypes = {}
    for name in "ABCST":
        dtypes[name] = draw(st.sampled_from(["float", "float", "int"] + (["complex", "complex"] if cplx else [])))
    return {
        "g": g, "k": k, "cplx": cplx, "want": want,
        "tree": draw(tree(draw(st.integers(1, 3)), want, k, cplx)),
        "seeds": {n: draw(st.integers(0, 2**31)) for n in "ABCST"},
        "dtypes": dtypes,
        "masks": {n: draw(gen.mask_spec(nd)) for n in "ABCST"},
        "vdims": draw(gen.vdims_strategy(k)),
        "mapping": draw(st.sampled_from(["default", "perm", "partial", "empty"])),
        "perm_seed": draw(st.integers(0, 1000)),
        "unit": draw(st.sampled_from(gen.FIELD_UNITS)),
        "scalar_labels": False,
    }


# --------------------------------------------------------------------------- building


def build_env(case):
    import discretisedfield as df

    g = case["g"]
    mesh = gen.build_mesh(g)
    n = tuple(g["n"])
    k = case["k"]
    dims = gen.dims_of(g)
    vd = case.get("vdims") or gen.default_vdims(k)
    mapping = None
    if vd and case.get("mapping", "default") != "default":
        rng = np.random.default_rng(case.get("perm_seed", 0))
        if case["mapping"] == "empty":
            mapping = {}
        else:
            tgt = list(dims) + [None] * max(0, k - len(dims))
            rng.shuffle(tgt)
            mapping = {v: t for v, t in zip(vd, tgt)}
            if case["mapping"] == "partial":
                mapping = {v: (t if i % 2 == 0 else None) for i, (v, t) in enumerate(mapping.items())}
    fields, arrays = {}, {}
    DT = {"float": None, "int": np.int64, "complex": np.complex128}
    for name in "ABCST":
        nv = k if name in "ABC" else 1
        dt = case["dtypes"][name]
        arr = gen.make_array(case["seeds"][name], (*n, nv), "int", dt)
        kw = {}
        if nv == 1 and case.get("scalar_labels"):
            kw["vdims"] = ["s"]  # user-labelled scalar fields (one label: S and T live in the same space)
        if nv > 1:
            if case.get("vdims"):
                kw["vdims"] = list(case["vdims"])
            if mapping is not None:
                kw["vdim_mapping"] = gen.shuffled_mapping(mapping, case.get("perm_seed", 0) + 3)
        fields[name] = df.Field(mesh, nvdim=nv, value=np.array(arr, copy=True), dtype=DT[dt], unit=case.get("unit"),
                                valid=gen.make_mask(case["masks"][name], n), **kw)
        arrays[name] = arr.copy()
    return mesh, fields, arrays


def snapshot(f):
    return (f.array.tobytes(), f.array.dtype.str, f.array.shape, f.valid.tobytes(),
            None if f.vdims is None else tuple(f.vdims), tuple(sorted((k, str(v)) for k, v in f.vdim_mapping.items())),
            f.mesh.region.pmin.tobytes(), f.mesh.region.pmax.tobytes(), tuple(int(i) for i in f.mesh.n), f.unit)


def snapsvalid(f):
    return np.array(f.valid, dtype=bool)


def leaf_value(node, n, k, lib):
    kind = node[0]
    if kind == "num":
        return node[1]
    import zlib
    sel = zlib.crc32(repr(node).encode()) // 7  # the representation handed to the library: a function of the operand
    if kind == "npnum":
        if not lib:
            return float(node[1])
        v = node[1]
        forms = [np.float64, np.float32] + ([np.int64, np.int32] if float(v).is_integer() else [])  # all exact here
        return forms[sel % len(forms)](v)
    if kind == "cnum":
        return complex(node[1], node[2])
    if kind == "vec":
        if not lib:
            return np.array(node[1], dtype=float)
        forms = [tuple, list, lambda x: np.array(x, dtype=float)]
        if all(float(x).is_integer() for x in node[1]):
            forms.append(lambda x: np.array([int(i) for i in x], dtype=np.int64))
        return forms[sel % len(forms)](node[1])
    if kind in ("arr", "arr1"):
        a = gen.make_array(node[1], (*n, k if kind == "arr" else 1), "int") + 0.5
        if not lib:
            return a
        form = sel % 5
        if form == 1:
            return np.asfortranarray(a)
        if form == 2:
            big = np.zeros((*(2 * m for m in n), a.shape[-1]))
            big[tuple(slice(None, None, 2) for _ in n)] = a
            return big[tuple(slice(None, None, 2) for _ in n)]
        if form == 3:
            a.flags.writeable = False
            return a
        if form == 4:
            return a.astype(np.float32)  # halves of small integers: exact
        return a
    raise KeyError(kind)


def ev(node, env, n, k, lib):
    """evaluate tree; lib=True on Field objects, False on raw arrays"""
    op = node[0]
    if op in "ABCST" and len(op) == 1:
        return env[op]
    if op in ("num", "npnum", "cnum", "vec", "arr", "arr1"):
        return leaf_value(node, n, k, lib)
    if op == "pow":
        return ev(node[1], env, n, k, lib) ** node[2]
    if op in UNARY:
        x = ev(node[1], env, n, k, lib)
        if op == "neg":
            return -x
        if op == "pos":
            return +x
        if op == "abs":
            return abs(x)
        if op == "sin":
            return np.sin(x)
        if op == "exp":
            return np.exp(x)
        if op == "sqrtabs":
            return np.sqrt(abs(x))
        if lib:
            return {"real": lambda: x.real, "imag": lambda: x.imag, "conj": lambda: x.conjugate,
                    "fabs": lambda: x.abs, "phase": lambda: x.phase}[op]()
        return {"real": lambda: x.real, "imag": lambda: x.imag, "conj": lambda: np.conjugate(x),
                "fabs": lambda: np.abs(x), "phase": lambda: np.angle(x)}[op]()
    a = ev(node[1], env, n, k, lib)
    b = ev(node[2], env, n, k, lib)
    if op == "add":
        return a + b
    if op == "sub":
        return a - b
    if op == "mul":
        return a * b
    if op == "div":
        return a / b
    if op == "npadd":
        return np.add(a, b)
    if op == "npmul":
        return np.multiply(a, b)
    if op == "dot":
        if lib:
            return a @ b
        return np.einsum("...l,...l->...", a, np.broadcast_to(b, a.shape))[..., np.newaxis]
    if op == "cross":
        if lib:
            return a & b
        return np.cross(a, b)
    raise KeyError(op)


def depth_of(node):
    if not isinstance(node, list) or node[0] in ("num", "npnum", "cnum", "vec", "arr", "arr1") or len(node) == 1:
        return 0
    return 1 + max(depth_of(c) for c in node[1:] if isinstance(c, list))


def has_reflected(node):
    if not isinstance(node, list) or len(node) < 3:
        return any(has_reflected(c) for c in node[1:] if isinstance(c, list)) if isinstance(node, list) else False
    if node[0] in BIN and isinstance(node[1], list) and node[1][0] in ("num", "npnum", "cnum", "vec", "arr", "arr1"):
        return True
    return any(has_reflected(c) for c in node[1:] if isinstance(c, list))


def nontrivial(case):
    t = case["tree"]
    mixed = len(set(case["dtypes"].values())) > 1
    return depth_of(t) >= 2 or has_reflected(t) or mixed


def check_expr(case):
    import discretisedfield as df

    g = case["g"]
    n, k = tuple(g["n"]), case["k"]
    mesh, fields, arrays = build_env(case)
    snaps = {name: snapshot(f) for name, f in fields.items()}
    t = case["tree"]
    tag(f"depth={depth_of(t)}")
    tag(f"root={t[0]}")
    if has_reflected(t):
        tag("reflected")
    with np.errstate(all="ignore"):
        expect = ev(t, arrays, n, k, False)
        try:
            got = ev(t, fields, n, k, True)
        except (OverflowError, FloatingPointError):
            raise Reject() from None
    require(isinstance(got, df.Field), "result-type", f"{type(got)}")
    nv = k if case["want"] == "V" else 1
    require(got.mesh == mesh, "result-mesh", "result lives on another mesh")
    require(got.array.shape == (*n, nv), "result-shape", f"{got.array.shape} vs {(*n, nv)}")
    require(got.nvdim == nv, "result-nvdim", f"{got.nvdim}")
    expect = np.broadcast_to(expect, (*n, nv))
    with np.errstate(all="ignore"):
        # the sign of an infinity born from a division by zero is not asserted: intermediate results of integer
        # fields are floating-point fields, so "-0" exists where numpy's integer arithmetic has only 0 (section 6)
        both_inf = np.isinf(got.array) & np.isinf(expect)
        ga = np.where(both_inf, 0, got.array)
        ea = np.where(both_inf, 0, expect)
        ok = np.allclose(ga, ea, rtol=1e-12, atol=0, equal_nan=True)
    if not ok:
        bad = np.argwhere(~np.isclose(ga, ea, rtol=1e-12, atol=0, equal_nan=True))
        i = tuple(bad[0])
        raise Violation(f"value:{t[0]}", f"{len(bad)} entries differ; at {i}: field {got.array[i]!r} numpy {expect[i]!r}")
    if depth_of(t) == 1 and t[0] in ("add", "sub", "mul", "neg") and all(a.dtype.kind in "fc" for a in arrays.values()):
        # one floating-point operation: the very same IEEE result, the sign of a zero included (1 / r, arctan2, the phase
        # of a complex number see it).  Not asserted for longer expressions and integer fields (section 6).
        ea_ = np.asarray(expect)
        zero = (got.array == 0) & (ea_ == 0)
        for part in (np.real, np.imag) if np.iscomplexobj(got.array) or np.iscomplexobj(ea_) else (np.real,):
            sg, se = np.signbit(part(got.array)), np.signbit(part(ea_))
            if np.any((sg != se) & zero):
                i = tuple(np.argwhere((sg != se) & zero)[0])
                raise Violation(f"zero-sign:{t[0]}", f"at {i}: field {got.array[i]!r} numpy {ea_[i]!r} for {t}")
        tag("zero-sign-checked")
    for name, f in fields.items():
        if snapshot(f) != snaps[name]:
            raise Violation("operand-modified", f"operand {name} changed while evaluating {t}")
    # operands stay untouched also by what is done to the result afterwards: an in-place ufunc on the result
    # (np.multiply(r, 2, out=r) is itself a field expression) must not write into an operand's memory
    if not any(got is f for f in fields.values()):  # unary + is documented to return the field itself
        with np.errstate(all="ignore"):
            try:
                got.array[...] = got.array * 2 + 1
            except (TypeError, ValueError):
                pass
        got.valid[...] = ~got.valid
        for name, f in fields.items():
            if snapshot(f) != snaps[name]:
                raise Violation("operand-shares-memory-with-result",
                                f"writing into the result of {t} changed operand {name} (values or validity)")


def check_single_ops(case):
    """every single binary operation in both operand orders against every kind of other operand, on one environment:
    the family in which a slip of one reflected operator (sign of a zero, operand order of - and /) shows"""
    k = case["k"]
    operands = {"V": ["A"], "S": ["S"]} if k > 1 else {"S": ["S"]}
    done = 0
    for want, names in operands.items():
        others = [["num", 2], ["num", -3], ["num", 0.5], ["num", 7], ["num", 0], ["npnum", 4.0], ["cnum", 2, 0], ["T"], ["S"]]
        if want == "V":
            others += [["vec", [2] * k], ["vec", [((-1) ** i) * (i + 1) / 2 for i in range(k)]], ["B"]]
        for op in ("add", "sub", "mul", "div"):
            for other in others:
                if other[0] == "cnum" and not case["cplx"]:
                    continue
                for t in ([op, [names[0]], other], [op, other, [names[0]]]):
                    if op == "div" and t[2][0] in ("num", "npnum", "cnum", "vec") and not np.all(np.asarray(t[2][1:]) != 0):
                        continue
                    try:
                        check_expr(dict(case, tree=t, want=want))
                    except Reject:
                        continue
                    done += 1
    if not done:
        raise Reject()


@st.composite
def commute_case(draw):
    c = draw(expr_case())
    c["scalar_labels"] = draw(st.booleans())  # labelled scalars only here (the ufunc path does not support them)
    c["op"] = draw(st.sampled_from(["add", "mul"]))
    c["pair"] = draw(st.sampled_from([["A", "B"], ["S", "A"], ["S", "T"], ["A", "S"]]))
    if c["k"] == 1:
        c["pair"] = ["S", "T"]
    c["tree"] = [c["op"], [c["pair"][0]], [c["pair"][1]]]
    return c


def check_commute(case):
    mesh, fields, arrays = build_env(case)
    snaps = {name: snapshot(f) for name, f in fields.items()}
    a, b = fields[case["pair"][0]], fields[case["pair"][1]]
    tag("scalar-vector" if a.nvdim != b.nvdim else "same-nvdim")
    if case["op"] == "add":
        r1, r2 = a + b, b + a
    else:
        r1, r2 = a * b, b * a
    require(np.allclose(r1.array, r2.array, rtol=1e-12, atol=0, equal_nan=True), "commute-values")
    v1 = None if r1.vdims is None else list(r1.vdims)
    v2 = None if r2.vdims is None else list(r2.vdims)
    if v1 != v2:
        raise Violation("commute-labels", f"{case['pair'][0]}{case['op']}{case['pair'][1]} has labels {v1}, "
                                          f"reversed order {v2}")
    if dict(r1.vdim_mapping) != dict(r2.vdim_mapping):
        raise Violation("commute-mapping", f"mapping {r1.vdim_mapping} vs {r2.vdim_mapping}")
    require(np.array_equal(r1.valid, r2.valid), "commute-valid")
    for name, f in fields.items():
        if snapshot(f) != snaps[name]:
            raise Violation("operand-modified", f"operand {name} changed")
    # the vector operand's metadata must survive
    vecf = a if a.nvdim > 1 else (b if b.nvdim > 1 else None)
    if vecf is not None:
        if list(vecf.vdims) != v1:
            raise Violation("commute-labels", f"labels {v1} differ from the vector operand's {vecf.vdims}")
        if dict(vecf.vdim_mapping) != dict(r1.vdim_mapping):
            raise Violation("commute-mapping", f"mapping {r1.vdim_mapping} vs operand {vecf.vdim_mapping}")


def check_stack(case):
    mesh, fields, arrays = build_env(case)
    k = case["k"]
    if k == 1:
        raise Reject()
    f = fields["A"]
    comps = [getattr(f, lab) for lab in f.vdims]
    s = comps[0]
    for c in comps[1:]:
        s = s << c
    require(s.nvdim == k and s.array.shape == f.array.shape, "stack-shape", f"{s.array.shape}")
    require(np.array_equal(s.array, f.array), "stack-values", "stacked components differ from the field")
    require(s == f, "stack-equal")
    require(np.array_equal(s.valid, f.valid), "stack-valid")
    if case.get("vdims") is None:
        require(list(s.vdims) == list(f.vdims), "stack-default-labels", f"{s.vdims} vs {f.vdims}")
    # stacking numbers / vectors
    t = f << 2.5
    require(t.nvdim == k + 1 and np.array_equal(t.array[..., :k], f.array) and np.all(t.array[..., k] == 2.5),
            "stack-number")
    u = (1.0, 2.0) << f
    require(u.nvdim == k + 2 and np.array_equal(u.array[..., 2:], f.array) and np.all(u.array[..., 0] == 1.0)
            and np.all(u.array[..., 1] == 2.0), "rstack-vector")
    require(np.array_equal(f.array, arrays["A"]), "stack-operand-modified")


def check_special(case):
    """dot / cross / angle / abs with labels, against numpy"""
    mesh, fields, arrays = build_env(case)
    snaps = {name: snapshot(f) for name, f in fields.items()}
    k = case["k"]
    A, B = fields["A"], fields["B"]
    a, b = arrays["A"], arrays["B"]
    n = tuple(case["g"]["n"])
    if k > 1:
        d = A @ B
        require(d.nvdim == 1 and np.allclose(d.array[..., 0], np.einsum("...l,...l->...", a, b), rtol=1e-12), "dot-value")
        d2 = A.dot(tuple(range(1, k + 1)))
        require(np.allclose(d2.array[..., 0], np.einsum("...l,l->...", a, np.arange(1, k + 1.0)), rtol=1e-12), "dot-vector")
        require(np.array_equal(d.valid, A.valid & B.valid), "dot-valid")
    if k == 3:
        c = A & B
        require(np.allclose(c.array, np.cross(a, b), rtol=1e-12), "cross-value", "A & B != np.cross(A, B)")
        c2 = (1, 2, 3) & A
        require(np.allclose(c2.array, np.cross(np.array([1.0, 2, 3]), a), rtol=1e-12), "rcross-value",
                "(1,2,3) & A != np.cross((1,2,3), A)")
        require(list(c.vdims) == list(A.vdims), "cross-labels")
    # abs (D4)
    try:
        r = abs(A)
    except ValueError as e:
        raise Violation("abs-custom-labels", f"abs(field) raises {e}") from None
    require(np.allclose(r.array, np.abs(a), rtol=1e-12), "abs-value")
    require((r.vdims is None and A.vdims is None) or list(r.vdims) == list(A.vdims), "abs-labels",
            f"{r.vdims} vs {A.vdims}")
    # angle
    if not case["cplx"] and all(case["dtypes"][x] != "complex" for x in "AB"):
        with np.errstate(all="ignore"):
            ang = A.angle(B)
            na = np.sqrt(np.sum(a.astype(float) ** 2, axis=-1))
            nb = np.sqrt(np.sum(b.astype(float) ** 2, axis=-1))
            ref = np.arccos(np.einsum("...l,...l->...", a, b) / (na * nb))
        good = (na > 0) & (nb > 0) & np.isfinite(ref)
        require(np.allclose(ang.array[..., 0][good], ref[good], rtol=1e-9, atol=1e-7), "angle-value")
        require(np.array_equal(ang.valid, snapsvalid(A) & snapsvalid(B)), "angle-valid")
        if k > 1:
            with np.errstate(all="ignore"):
                ang2 = A.angle(tuple(range(1, k + 1)))
                w = np.arange(1, k + 1.0)
                ref2 = np.arccos(np.einsum("...l,l->...", a, w) / (na * np.linalg.norm(w)))
            good2 = (na > 0) & np.isfinite(ref2)
            require(np.allclose(ang2.array[..., 0][good2], ref2[good2], rtol=1e-9, atol=1e-7), "angle-vector-value")
    # a scalar field combined with a constant vector whose length happens to equal the number of cells (1-d mesh): a
    # vector field with that many components (numpy: (n, 1) op (n,) -> (n, n)), not a per-cell combination
    S = fields["S"]
    if len(n) == 1 and n[0] >= 2 and S.array.dtype.kind != "c":
        vec = tuple(float(i + 2) for i in range(n[0]))
        for form in (vec, list(vec), np.array(vec)):
            for opname, fn in (("add", lambda x, y: x + y), ("mul", lambda x, y: x * y), ("rsub", lambda x, y: y - x),
                               ("div", lambda x, y: x / y)):
                r = fn(S, form)
                want = fn(arrays["S"].astype(float), np.array(vec))
                if r.nvdim != n[0] or r.array.shape != (n[0], n[0]) or not np.allclose(r.array, want, rtol=1e-12):
                    raise Violation("scalar-with-vector-of-mesh-length",
                                    f"scalar field on {n[0]} cells {opname} constant {n[0]}-vector ({type(form).__name__}): "
                                    f"nvdim {r.nvdim}, shape {r.array.shape}")
    # labelled fields with distinct labels stacked: operands (their mappings included) stay as they are
    if k > 1 and fields["A"].vdims:
        import discretisedfield as df

        A2 = fields["A"]
        other_labels = [f"q{c}_{lab}" for c, lab in enumerate(A2.vdims)]
        Bl = df.Field(mesh, nvdim=k, value=arrays["B"], vdims=other_labels,
                      vdim_mapping={ol: A2.vdim_mapping.get(lab) for ol, lab in zip(other_labels, A2.vdims)}
                      if A2.vdim_mapping else None)
        before = (dict(A2.vdim_mapping), dict(Bl.vdim_mapping), list(A2.vdims), list(Bl.vdims))
        st_ = A2 << Bl
        neg = -A2  # a result that shares nothing with the stack
        if (dict(A2.vdim_mapping), dict(Bl.vdim_mapping), list(A2.vdims), list(Bl.vdims)) != before:
            raise Violation("stack-modified-operand-mapping", f"A << B changed an operand's labels or mapping: "
                                                              f"{dict(A2.vdim_mapping)} / {dict(Bl.vdim_mapping)}")
        require(st_.nvdim == 2 * k and np.array_equal(st_.array[..., :k], arrays["A"]) and np.array_equal(st_.array[..., k:], arrays["B"]),
                "stack-labelled-values")
        require(list(st_.vdims or []) == list(A2.vdims) + other_labels, "stack-labelled-labels", f"{st_.vdims}")
        require(neg.nvdim == k, "stack-then-neg")
    # integer-typed fields with components whose squares leave the range of the dtype (Ms = 800000 as int32): lengths
    # and angles are taken in floating point
    import discretisedfield as df

    if k > 1:
        for dt, big in ((np.int32, 70000), (np.int16, 300), (np.int64, 3_100_000_000)):
            ai = (a.real.astype(np.int64) * (big // 9)).astype(dt)
            fi = df.Field(mesh, nvdim=k, value=ai, dtype=dt)
            w = tuple(range(1, k + 1))
            with np.errstate(all="ignore"):
                ang = fi.angle(w)
                af = ai.astype(float)
                na = np.sqrt(np.sum(af**2, axis=-1))
                ref = np.arccos(np.einsum("...l,l->...", af, np.array(w, float)) / (na * np.linalg.norm(w)))
            good = (na > 0) & np.isfinite(ref)
            if good.any() and not np.allclose(ang.array[..., 0][good], ref[good], rtol=1e-9, atol=1e-7, equal_nan=False):
                raise Violation("angle-large-integers", f"{np.dtype(dt).name} field with components up to {big}: angle "
                                                        f"{ang.array[..., 0][good][0]!r} vs {ref[good][0]!r}")
            if not np.allclose(fi.norm.array[..., 0], na, rtol=1e-12):
                raise Violation("norm-large-integers", f"{np.dtype(dt).name} field: norm is not the Euclidean length")
    for name, f in fields.items():
        if snapshot(f) != snaps[name]:
            raise Violation("operand-modified", f"operand {name} (values, validity, labels or mesh) changed")


@st.composite
def reject_case(draw):
    c = draw(expr_case())
    c["tree"] = ["A"]  # not used here
    if draw(st.integers(0, 2)) == 0:
        # nanometre scale (the library's home turf): every cell size is far below numpy's default atol of 1e-8
        c["g"] = draw(gen.geom(nmin=2, nmax=4, exps=(-9, -9), maxcells=120, int_corners=False))
    c["bad"] = draw(st.sampled_from(["shifted-mesh", "other-n", "other-n-broadcastable", "other-n-broadcastable", "nvdim",
                                     "type-str", "type-none", "type-dict"]))
    c["op"] = draw(st.sampled_from(["add", "add", "sub", "mul", "mul", "div", "dot", "cross", "lshift", "angle", "npadd",
                                    "npmul", "nparctan2"]))
    c["k2"] = draw(st.integers(2, 4))
    c["axis"] = draw(st.integers(0, len(c["g"]["n"]) - 1))
    c["shift"] = draw(st.sampled_from([0.25, 0.5, 1.0, 3.0]))
    c["swap"] = draw(st.booleans())
    return c


def check_reject(case):
    import discretisedfield as df
    from fractions import Fraction as F

    g = case["g"]
    mesh, fields, arrays = build_env(case)
    k, op, bad = case["k"], case["op"], case["bad"]
    A = fields["A"]
    tag(bad)
    tag(op)
    lat = gen.lattice_of(g)
    ax = case["axis"]
    if bad == "shifted-mesh":
        p1 = [float(x) for x in lat.pmin]
        p2 = [float(x) for x in lat.pmax]
        d = float(F(case["shift"]) * lat.cell[ax])
        p1[ax] += d
        p2[ax] += d
        other = df.Field(df.Mesh(p1=p1, p2=p2, n=lat.n), nvdim=k, value=arrays["B"])
    elif bad == "other-n":
        n2 = list(lat.n)
        n2[ax] += 1
        other = df.Field(df.Mesh(p1=[float(x) for x in lat.pmin], p2=[float(x) for x in lat.pmax], n=n2), nvdim=k,
                         value=1.0 if k == 1 else (1.0,) * k)
    elif bad == "other-n-broadcastable":
        # same region, one cell along some axes where the field has several: numpy would broadcast silently
        n2 = [1 if (i == ax or (case["k2"] + i) % 2) else m for i, m in enumerate(lat.n)]
        if n2 == list(lat.n):
            raise Reject()
        other = df.Field(df.Mesh(p1=[float(x) for x in lat.pmin], p2=[float(x) for x in lat.pmax], n=n2), nvdim=k,
                         value=1.0 if k == 1 else (1.0,) * k)
    elif bad == "nvdim":
        k2 = case["k2"]
        if k == 1 or k2 == k or op == "lshift":
            raise Reject()
        other = df.Field(mesh, nvdim=k2, value=(1.0,) * k2)
    else:
        other = {"type-str": "abc", "type-none": None, "type-dict": {"a": 1}}[bad]
    if op == "cross" and k != 3:
        raise Reject()
    if op == "dot" and k == 1 and bad == "nvdim":
        raise Reject()

    def run(x, y):
        return {"add": lambda: x + y, "sub": lambda: x - y, "mul": lambda: x * y, "div": lambda: x / y,
                "dot": lambda: x @ y, "cross": lambda: x & y, "lshift": lambda: x << y, "angle": lambda: (x.angle(y) if hasattr(x, "angle") else y.angle(x)),
                "npadd": lambda: np.add(x, y), "npmul": lambda: np.multiply(x, y),
                "nparctan2": lambda: np.arctan2(x, y)}[op]()

    x, y = (other, A) if case["swap"] else (A, other)
    try:
        with np.errstate(all="ignore"):
            r = run(x, y)
    except (ValueError, TypeError):
        return
    except NotImplementedError:
        if op.startswith("np"):
            return  # the ufunc protocol's way of refusing: an error all the same
        raise
    raise Violation(f"reject:{bad}", f"{op} with {bad} operand accepted -> {type(r).__name__}")


SUBS = [
    Sub("expr", check_expr, expr_case(), nontrivial=nontrivial, quick=1500, thorough=8000),
    Sub("single-ops", check_single_ops, expr_case(), quick=60, thorough=600),
    Sub("commute", check_commute, commute_case(), quick=400, thorough=2000),
    Sub("stack", check_stack, expr_case(), quick=300, thorough=1500),
    Sub("special", check_special, expr_case(), quick=400, thorough=2000),
    Sub("reject", check_reject, reject_case(), quick=500, thorough=2500),
]


# objects with a history (reads that may fill caches, in-place writes): observables equal those of a fresh object
from pbt import aged as _aged  # noqa: E402

SUBS.append(_aged.sub("C03", quick=250))
ASSUMPTIONS = list(ASSUMPTIONS) + ["aged sub-property: library results are a function of the public primary state "
                                   "(corners, n, names, units, bc, subregions, array, validity, labels, mapping, unit)"]

"""C19 - topological and demagnetisation tools obey their physical invariances."""
import numpy as np
from hypothesis import strategies as st

from pbt import gen
from pbt.core import Reject, Sub, Violation, require, tag
from pbt.props.c18 import rodrigues

RULE = (
    "Hypothesis-generated compact textures (winding +-1..3, helicity, centre, disk radius >= 4|Q| cells), random smooth "
    "unit fields and uniform fields on 2-d meshes with anisotropic cells at any scale/offset, random masks, random "
    "proper rotations (Rodrigues), per-cell positive length factors, mesh rescaling/translation, quarter turns: "
    "metamorphic relations for both charge methods; hedgehogs at/near a vertex >= 3 cells from every face (with and "
    "without a spherical sample mask) for the Bloch-point count along x, y, z; random 3-vector fields on 3-d meshes "
    "for neighbouring-cell angles; cuboids of any aspect ratio and cell anisotropy for the demagnetisation tensor "
    "(trace, implementation agreement, demagnetising factors); non-trivial = anisotropic cells or a mask with both "
    "values or a non-axis rotation"
)
ASSUMPTIONS = [
    "integrality of the lattice charge and the expected winding number -Q are asserted only for disks spanning >= 8|Q| cells",
    "Bloch-point counts are asserted only >= 3 cells from every face (calibrated resolution requirement)",
    "demag trace checked in real space (inverse transform): -1 in the central cell, 0 elsewhere (FFT origin convention)",
]


# --------------------------------------------------------------------------- charge


@st.composite
def charge_case(draw):
    nx, ny = draw(st.integers(16, 26)), draw(st.integers(16, 26))
    e = draw(st.integers(-9, 3))
    cx = draw(st.sampled_from([1.0, 0.3, 2.5, 0.7])) * 10.0**e
    cy = cx * draw(st.sampled_from([1.0, 1.0, 0.5, 2.0, 1.3]))
    off = [draw(st.integers(-30, 30)), draw(st.integers(-30, 30))]
    Q = draw(st.sampled_from([1, -1, 2, -2, 1, -1, 3]))
    kind = draw(st.sampled_from(["texture", "texture", "texture", "smooth", "uniform"]))
    return {"n": [nx, ny], "cell": [cx, cy], "off": off, "exp": e, "Q": Q, "kind": kind,
            "helicity": draw(st.sampled_from([0.0, 1.5707963267948966, 0.7, 3.0])),
            "centre": [draw(st.integers(-8, 8)) / 8, draw(st.integers(-8, 8)) / 8],
            "radius": draw(st.sampled_from([0.7, 0.8, 0.9])), "seed": draw(st.integers(0, 2**31)),
            "mask": draw(st.sampled_from([["all"], ["all"], ["rand", 0, 0.9], ["box", [2, 3], [5, 6]], ["stripe", 0, 3]])),
            "rot_axis": draw(st.sampled_from([(0, 0, 1), (1, 0, 0), (1, 1, 0), (1, 2, 3), (-1, 1, 2)])),
            "rot_deg": draw(st.sampled_from([90, 30, 117, 180, 45, 271])),
            "scale": draw(st.sampled_from([2.0, 0.5, 1e3, 1e-3, 7.3])), "k": draw(st.sampled_from([1, 2, 3, -1])),
            "far": draw(st.sampled_from([5, 6]))}


def texture(case):
    nx, ny = case["n"]
    cx, cy = case["cell"]
    x = (np.arange(nx) + 0.5 - nx / 2) * cx
    y = (np.arange(ny) + 0.5 - ny / 2) * cy
    X, Y = np.meshgrid(x, y, indexing="ij")
    if case["kind"] == "uniform":
        v = np.array([1.0, 2.0, -0.5])
        return np.broadcast_to(v / np.linalg.norm(v), (nx, ny, 3)).copy()
    if case["kind"] == "smooth":
        rng = np.random.default_rng(case["seed"])
        a = rng.normal(size=(3, 3))
        U = X / (nx * cx)
        V = Y / (ny * cy)
        m = np.stack([a[i, 0] + a[i, 1] * np.sin(2 * U + i) + a[i, 2] * np.cos(3 * V - i) for i in range(3)], axis=-1)
        return m / np.linalg.norm(m, axis=-1, keepdims=True)
    half = min(nx * cx, ny * cy) / 2
    R = case["radius"] * half * 0.8
    x0 = case["centre"][0] * (half - R) * 0.5
    y0 = case["centre"][1] * (half - R) * 0.5
    # measure distances in cell units so that the disk is round in index space too for anisotropic cells
    r = np.hypot(X - x0, Y - y0)
    theta = np.where(r < R, np.pi * (1 - r / R), 0.0)
    phi = case["Q"] * np.arctan2(Y - y0, X - x0) + case["helicity"]
    return np.stack([np.sin(theta) * np.cos(phi), np.sin(theta) * np.sin(phi), np.cos(theta)], axis=-1)


def mk2d(case, arr, scale=1.0, shift=(0.0, 0.0), mask=None):
    import discretisedfield as df

    nx, ny = case["n"]
    cx, cy = case["cell"][0] * scale, case["cell"][1] * scale
    p1 = [case["off"][0] * cx + shift[0], case["off"][1] * cy + shift[1]]
    p2 = [p1[0] + nx * cx, p1[1] + ny * cy]
    mesh = df.Mesh(p1=p1, p2=p2, n=(nx, ny))
    return df.Field(mesh, nvdim=3, value=np.array(arr, copy=True), valid=True if mask is None else mask,
                    vdim_mapping={"x": "x", "y": "y", "z": None})


def check_charge(case):
    import discretisedfield.tools as dft

    arr = texture(case)
    n = tuple(case["n"])
    mask = gen.make_mask(case["mask"] if case["mask"][0] != "rand" else ["rand", case["seed"], 0.9], n)
    f = mk2d(case, arr, mask=mask)
    tag(case["kind"])
    tag("masked" if not mask.all() else "all-valid")
    rng = np.random.default_rng(case["seed"] + 1)
    Rm = rodrigues(case["rot_axis"], np.deg2rad(case["rot_deg"]))
    factors = rng.uniform(0.5, 3.0, size=n)[..., np.newaxis] * 10.0 ** rng.integers(-3, 4)
    variants = {
        "vector-rotation": mk2d(case, arr @ Rm.T, mask=mask),
        "length-rescaling": mk2d(case, arr * factors, mask=mask),
        "mesh-rescaling": mk2d(case, arr, scale=case["scale"], mask=mask),
        "mesh-translation": mk2d(case, arr, shift=(17 * case["cell"][0], -5 * case["cell"][1]), mask=mask),
        "quarter-turn": f.rotate90("x", "y", k=case["k"]),
        # a sample far from the origin (1e5 ... 1e6 cells away): coordinates carry 1e-11 ... 1e-10 of a cell of rounding
        "mesh-far-translation": mk2d(case, arr, shift=(10.0 ** case.get("far", 5) * case["cell"][0],
                                                       -3.0 * 10.0 ** case.get("far", 5) * case["cell"][1]), mask=mask),
    }
    res = {}
    for method in ("continuous", "berg-luescher"):
        q0 = dft.topological_charge(f, method=method)
        res[method] = q0
        require(np.isfinite(q0), f"charge-not-finite-{method}")
        for name, fv in variants.items():
            q = dft.topological_charge(fv, method=method)
            if abs(q - q0) > (1e-6 if name == "mesh-far-translation" else 1e-8) * max(1.0, abs(q0)):
                raise Violation(f"charge-not-invariant:{name}:{method}", f"{q0!r} -> {q!r} ({case['kind']}, Q={case['Q']}, "
                                                                         f"cells {case['cell']})")
        qm = dft.topological_charge(mk2d(case, -arr, mask=mask), method=method)
        if abs(qm + q0) > 1e-8 * max(1.0, abs(q0)):
            raise Violation(f"charge-reversal:{method}", f"m -> -m: {q0!r} -> {qm!r}")
        qa = dft.topological_charge(f, method=method, absolute=True)
        require(qa >= abs(q0) - 1e-9, f"absolute-charge-{method}", f"{qa} < |{q0}|")
        if case["kind"] == "uniform" and abs(q0) > 1e-9:
            raise Violation(f"uniform-charge-nonzero:{method}", f"{q0!r}")
        dens = dft.topological_charge_density(f, method=method)
        require(dens.nvdim == 1 and dens.mesh == f.mesh, f"density-metadata-{method}")
    # the tools work on the current values: reverse all vectors in place and ask again
    g = mk2d(case, arr.copy(), mask=mask)
    for method in ("continuous", "berg-luescher"):
        q1 = dft.topological_charge(g, method=method)
        g.orientation  # noqa: B018 - something else that derives from the values
        g.array[...] *= -1
        q2 = dft.topological_charge(g, method=method)
        g.array[...] *= -1
        if abs(q1 + q2) > 1e-8 * max(1.0, abs(q1)):
            raise Violation(f"charge-stale-after-inplace-write:{method}", f"{q1!r} then, after reversing all vectors in place, {q2!r}")
    if case["kind"] == "texture" and mask.all():
        cells_across = 2 * case["radius"] * 0.8 * min(n[0] * case["cell"][0], n[1] * case["cell"][1]) / 2 / max(case["cell"])
        if cells_across >= 8 * abs(case["Q"]):
            tag("resolved-texture")
            bl = res["berg-luescher"]
            if abs(bl - round(bl)) > 1e-9:
                raise Violation("berg-luescher-not-integer", f"{bl!r} for a compact texture with winding {case['Q']}")
            if round(bl) != -case["Q"]:
                raise Violation("berg-luescher-wrong-winding", f"{bl!r}, expected {-case['Q']}")


@st.composite
def compact_case(draw):
    """compact textures defined in index space (radius in cells), radius >= max(1.45, |Q|) cells, any centre offset
    within a cell, any helicity, anisotropic cells: calibrated domain in which the lattice charge is the integer -Q on
    the unchanged tree (13 500 probe cases + the thorough tier; DESIGN section 6)"""
    Q = draw(st.sampled_from([1, -1, 2, -2, 3, -3]))
    rmin = max(1.45, float(abs(Q)))
    R = rmin + draw(st.integers(0, 250)) / 100
    n = int(2 * np.ceil(R + 2.5)) + draw(st.integers(0, 2))
    return {"n": n, "cx": draw(st.sampled_from([1.0, 0.3, 2e-9, 5e3])), "cy": draw(st.sampled_from([1.0, 0.7, 5e-9, 5e3])),
            "Q": Q, "R": R, "helicity": draw(st.integers(0, 628)) / 100,
            "centre": [draw(st.integers(-50, 50)) / 100, draw(st.integers(-50, 50)) / 100],
            "off": [draw(st.integers(-9, 9)), draw(st.integers(-9, 9))]}


def check_compact(case):
    import discretisedfield as df
    import discretisedfield.tools as dft

    n = case["n"]
    idx = np.arange(n) + 0.5 - n / 2
    # generic position: fixed irrational-looking offsets keep the texture away from the exceptional configurations
    # (exactly antiparallel neighbours, exactly coplanar triples) for which the lattice charge is undefined
    X, Y = np.meshgrid(idx - case["centre"][0] - 0.00371, idx - case["centre"][1] + 0.00529, indexing="ij")
    R = case["R"] + 0.0137
    r = np.hypot(X, Y)
    th = np.where(r < R, np.pi * (1 - r / R), 0.0)
    ph = case["Q"] * np.arctan2(Y, X) + case["helicity"] + 0.1234
    m = np.stack([np.sin(th) * np.cos(ph), np.sin(th) * np.sin(ph), np.cos(th)], axis=-1)
    cx, cy = case["cx"], case["cy"]
    p1 = [case["off"][0] * cx, case["off"][1] * cy]
    store = [None, None, np.float32, np.int64, np.int32][(case["Q"] + int(case["R"] * 8) + n) % 5]
    if store is not None and np.dtype(store).kind == "i":
        # the same directions held as integer vectors (a spin direction given to three digits): the lattice charge is an
        # integer whatever the storage type
        m = np.round(m * 10000).astype(store)
    elif store is not None:
        m = m.astype(store)
    f = df.Field(df.Mesh(p1=p1, p2=[p1[0] + n * cx, p1[1] + n * cy], n=(n, n)), nvdim=3, value=m, dtype=store)
    q = dft.topological_charge(f, method="berg-luescher")
    tag(f"Q={abs(case['Q'])}")
    tag("storage=" + ("float64" if store is None else np.dtype(store).name))
    tol_ = 1e-9 if store is None or np.dtype(store).kind == "i" else 1e-5
    if not np.isfinite(q) or abs(q - round(q)) > tol_:
        raise Violation("berg-luescher-not-integer", f"compact winding {case['Q']} texture of radius {case['R']} cells, centre "
                                                     f"{case['centre']}: {q!r}")
    if round(q) != -case["Q"]:
        raise Violation("berg-luescher-wrong-winding", f"{q!r}, expected {-case['Q']} (radius {case['R']} cells)")


# --------------------------------------------------------------------------- Bloch points


@st.composite
def hedgehog_case(draw):
    n = [draw(st.integers(7, 10)) for _ in range(3)]
    e = draw(st.integers(-9, 1))
    c0 = draw(st.sampled_from([1.0, 0.5, 2.0])) * 10.0**e
    cell = [c0 * draw(st.sampled_from([1.0, 1.0, 1.5, 2.0, 3.0, 4.0])) for _ in range(3)]
    vert = [draw(st.integers(3, k - 3)) for k in n]
    sphere = draw(st.booleans())
    # calibrated resolution limit (DESIGN section 6): a spherical sample of radius 3 cells whose centre sits 0.2
    # cells off a vertex is counted as two Bloch points in 2 of 428 cases (the poles are 1-2 cells wide); up to
    # 0.1 cells 0 of 342.  Cuboid samples: 0 of 794 up to 0.2 cells.
    jit = [0.0, 0.05, -0.1] if sphere else [0.0, 0.05, -0.1, 0.2]
    return {"n": n, "cell": cell, "vertex": vert, "jitter": [draw(st.sampled_from(jit)) for _ in range(3)],
            "sign": draw(st.sampled_from([1, -1])),
            "off": [draw(st.integers(-5, 5)) for _ in range(3)] if draw(st.integers(0, 2)) else
                   [draw(st.sampled_from([100_000, -300_000, 1_000_000])) for _ in range(3)],
            "labels": draw(st.sampled_from([None, None, ["a", "b", "c"], ["mx", "my", "mz"]])),
            "mapping": draw(st.sampled_from([None, None, [1, 2, 0], [2, 0, 1], [1, 0, 2], [0, 1, 2]])),
            "sphere": sphere, "scale_len": draw(st.sampled_from([1.0, 8e5, 3e-3])),
            "junk": draw(st.sampled_from([0, 0, 11, 12]))}


def check_hedgehog(case):
    import discretisedfield as df
    import discretisedfield.tools as dft

    n, cell = case["n"], case["cell"]
    p1 = [case["off"][d] * cell[d] for d in range(3)]
    p2 = [p1[d] + n[d] * cell[d] for d in range(3)]
    mesh = df.Mesh(p1=p1, p2=p2, n=n)
    c = np.array([p1[d] + (case["vertex"][d] + case["jitter"][d]) * cell[d] for d in range(3)])
    grids = np.meshgrid(*[p1[d] + (np.arange(n[d]) + 0.5) * cell[d] for d in range(3)], indexing="ij")
    X = np.stack(grids, axis=-1) - c
    m = case["sign"] * X / np.linalg.norm(X, axis=-1, keepdims=True) * case["scale_len"]
    valid = True
    if case["sphere"]:
        idx = np.stack(np.meshgrid(*[np.arange(k) + 0.5 for k in n], indexing="ij"), axis=-1)
        centre_idx = np.array(case["vertex"], float) + np.array(case["jitter"])
        rad = min(min(case["vertex"]), min(k - v for k, v in zip(n, case["vertex"])))
        valid = np.linalg.norm(idx - centre_idx, axis=-1) <= rad + 0.01
        # what is stored outside the sample must not matter
        junk = np.random.default_rng(case.get("junk", 0)).normal(size=m.shape) if case.get("junk", 0) else np.zeros_like(m)
        m = np.where(valid[..., np.newaxis], m, junk)
        tag("spherical-sample")
    # the tools read the three stored components as the x, y and z components; component labels and the declared
    # component-to-axis mapping of the same array do not change any count
    kw = {}
    if case.get("labels"):
        kw["vdims"] = list(case["labels"])
    if case.get("mapping"):
        labels = list(case.get("labels") or ["x", "y", "z"])
        kw["vdim_mapping"] = {labels[c]: "xyz"[a] for c, a in enumerate(case["mapping"])}
        tag("declared-mapping-permuted")
    f = df.Field(mesh, nvdim=3, value=m, valid=(valid if isinstance(valid, bool) else np.array(valid, copy=True)), **kw)
    for direction in "xyz":
        r = dft.count_bps(f, direction=direction)
        want_tt, want_hh = (1, 0) if case["sign"] > 0 else (0, 1)
        if not (r["bp_number"] == 1 and r["bp_number_tt"] == want_tt and r["bp_number_hh"] == want_hh):
            raise Violation("hedgehog-count", f"direction {direction}, sign {case['sign']}, cells {cell}, centre vertex "
                                              f"{case['vertex']}+{case['jitter']}, sphere={case['sphere']}: {r}")
    F = dft.emergent_magnetic_field(f)
    require(F.nvdim == 3 and F.mesh == mesh, "emergent-field-metadata")
    # reversed in place: the same object must now be counted head-to-head (tail-to-tail)
    f.array[...] *= -1
    r = dft.count_bps(f, direction="z")
    want_tt, want_hh = (0, 1) if case["sign"] > 0 else (1, 0)
    if not (r["bp_number"] == 1 and r["bp_number_tt"] == want_tt and r["bp_number_hh"] == want_hh):
        raise Violation("hedgehog-stale-after-inplace-write", f"after reversing the vectors in place: {r}")


# --------------------------------------------------------------------------- angles


@st.composite
def angle_case(draw):
    g = draw(gen.geom(ndim=3, nmin=2, nmax=5, exps=(-9, 3), big_offsets=False, maxcells=120, tol=False))
    return {"g": g, "seed": draw(st.integers(0, 2**31)), "axis": draw(st.integers(0, len(g["n"]) - 1)),
            "units": draw(st.sampled_from(["rad", "deg"])), "exp": draw(st.integers(-4, 6)),
            # vector lengths: anything, exactly one, or all within 1e-5 of one (an "is it normalised" shortcut must
            # not change the angles), or a mixture
            "lengths": draw(st.sampled_from(["random", "random", "unit", "near-unit", "near-unit", "mixed"])),
            "near": draw(st.sampled_from([0.999995, 1.00001, 0.999999, 1.000004, 0.99999]))}


def check_angles(case):
    import discretisedfield as df
    import discretisedfield.tools as dft

    g = case["g"]
    n = tuple(g["n"])
    mesh = gen.build_mesh(g)
    lat = gen.lattice_of(g)
    dims = gen.dims_of(g)
    rng = np.random.default_rng(case["seed"])
    arr = rng.normal(size=(*n, 3)) * 10.0 ** case["exp"]
    mode = case.get("lengths", "random")
    if mode != "random":
        arr = arr / np.linalg.norm(arr, axis=-1, keepdims=True)
        if mode == "near-unit":
            arr = arr * case["near"]
        elif mode == "mixed":
            arr = arr * np.where(rng.random(n) < 0.5, case["near"], 1.0)[..., None]
    tag("lengths=" + mode)
    if n[case["axis"]] >= 2:
        # include parallel, antiparallel and identical neighbours
        sl = [0] * len(n)
        a = tuple(sl)
        sl[case["axis"]] = 1
        b = tuple(sl)
        arr[b] = -2 * arr[a] if case.get("lengths", "random") == "random" else -arr[a]
    f = df.Field(mesh, nvdim=3, value=np.array(arr, copy=True))
    d = case["axis"]
    res = dft.neighbouring_cell_angle(f, direction=dims[d], units=case["units"])
    u = arr / np.linalg.norm(arr, axis=-1, keepdims=True)
    lo = [slice(None)] * len(n)
    hi = [slice(None)] * len(n)
    lo[d], hi[d] = slice(0, -1), slice(1, None)
    # atan2 form: well conditioned near 0 and pi, where arccos of a rounded dot product is not
    ua, ub = u[tuple(lo)], u[tuple(hi)]
    ref = np.arctan2(np.linalg.norm(np.cross(ua, ub), axis=-1), np.sum(ua * ub, axis=-1))
    top = np.pi
    if case["units"] == "deg":
        ref, top = np.degrees(ref), 180.0
    want_n = list(n)
    want_n[d] -= 1
    require([int(i) for i in res.mesh.n] == want_n, "angle-mesh-n", f"{res.mesh.n} vs {want_n}")
    for e in range(len(n)):
        shift = float(lat.cell[e]) / 2 if e == d else 0.0
        if abs(res.mesh.region.pmin[e] - (float(lat.pmin[e]) + shift)) > 1e-9 * float(lat.cell[e]) + float(lat.fp_tol(e)) or \
                abs(res.mesh.region.pmax[e] - (float(lat.pmax[e]) - shift)) > 1e-9 * float(lat.cell[e]) + float(lat.fp_tol(e)):
            raise Violation("angle-mesh-position", f"axis {e}: {res.mesh.region.pmin[e]}..{res.mesh.region.pmax[e]}")
    vals = res.array[..., 0]
    require(np.all(vals >= 0) and np.all(vals <= top + 1e-12), "angle-range", f"{vals.min()}..{vals.max()}")
    if not np.allclose(vals, ref, rtol=0, atol=1e-7 * top):
        raise Violation("angle-value", f"max deviation {np.max(np.abs(vals - ref))}")


# --------------------------------------------------------------------------- demagnetisation


@st.composite
def demag_case(draw):
    n = [draw(st.integers(1, 4)) for _ in range(3)]
    e = draw(st.integers(-9, 0))
    c0 = draw(st.sampled_from([1.0, 0.5, 3.0])) * 10.0**e
    cell = [c0 * draw(st.sampled_from([1.0, 1.0, 2.0, 3.0, 0.5, 5.0, 1.5])) for _ in range(3)]
    return {"n": n, "cell": cell, "M": draw(st.sampled_from([1.0, 8e5, -3.0])), "slow": draw(st.integers(0, 5)) == 0,
            "perm": list(draw(st.permutations([0, 1, 2])))}


def check_demag(case):
    import warnings

    import discretisedfield as df
    import discretisedfield.tools as dft
    from discretisedfield.tools import tools as T

    n, cell = case["n"], case["cell"]
    mesh = df.Mesh(p1=(0, 0, 0), p2=[k * c for k, c in zip(n, cell)], n=n)
    cubic = len({round(c / cell[0], 9) for c in cell}) == 1
    tag("cubic-cells" if cubic else "anisotropic-cells")
    tensor = dft.demag_tensor(mesh)
    require(tensor.nvdim == 6 and list(tensor.vdims) == ["ft_xx", "ft_yy", "ft_zz", "ft_xy", "ft_xz", "ft_yz"], "tensor-labels")
    real = tensor.ifftn().array
    trace = real[..., 0] + real[..., 1] + real[..., 2]
    expect = np.zeros_like(trace)
    expect[tuple(k - 1 for k in n)] = -1.0
    if np.max(np.abs(trace - expect)) > 1e-8:
        i = np.unravel_index(np.argmax(np.abs(trace - expect)), trace.shape)
        raise Violation("demag-trace", f"cells {cell}, n {n}: real-space trace at {i} is {trace[i].real!r}, expected {expect[i].real}")
    # trace = -1 at every frequency up to the phase of the FFT origin: |trace| == 1
    ktrace = tensor.array[..., 0] + tensor.array[..., 1] + tensor.array[..., 2]
    if np.max(np.abs(np.abs(ktrace) - 1)) > 1e-8:
        raise Violation("demag-trace-k", f"|trace(k)| deviates from 1 by {np.max(np.abs(np.abs(ktrace) - 1))}")
    if case["slow"] and int(np.prod(n)) <= 12:
        ref = T._demag_tensor_field_based(mesh)
        if not np.allclose(ref.array, tensor.array, rtol=1e-9, atol=1e-9):
            raise Violation("demag-implementations-differ", f"cells {cell}, n {n}")
        tag("implementations-compared")
    # permuting the mesh axes permutes the tensor components (checks the off-diagonal elements, too)
    perm = case.get("perm", [1, 2, 0])
    mesh_p = df.Mesh(p1=(0, 0, 0), p2=[n[i] * cell[i] for i in perm], n=[n[i] for i in perm])
    real_p = dft.demag_tensor(mesh_p).ifftn().array
    comp = {(0, 0): 0, (1, 1): 1, (2, 2): 2, (0, 1): 3, (1, 0): 3, (0, 2): 4, (2, 0): 4, (1, 2): 5, (2, 1): 5}
    inv = [perm.index(i) for i in range(3)]  # axis i of the original mesh is axis inv[i] of the permuted one
    for (a, b), ci in comp.items():
        if a > b:
            continue
        # original array indexed (x0, x1, x2); permuted array indexed (x_perm[0], x_perm[1], x_perm[2])
        lhs = np.transpose(real[..., ci], perm)
        rhs = real_p[..., comp[(inv[a], inv[b])]]
        if np.max(np.abs(lhs - rhs)) > 1e-9:
            raise Violation("demag-permutation-symmetry", f"cells {cell}, n {n}: component {(a, b)} of the tensor differs from "
                                                          f"component {(inv[a], inv[b])} of the tensor of the mesh with axes {perm}")
    # demagnetising factors of the uniformly magnetised cuboid
    total = 0.0
    for ax in range(3):
        v = [0.0, 0.0, 0.0]
        v[ax] = case["M"]
        m = df.Field(mesh, nvdim=3, value=tuple(v))
        with warnings.catch_warnings():
            warnings.simplefilter("ignore")
            h = dft.demag_field(m, tensor)
        mean = h.mean()
        total += mean[ax] / case["M"]
        for other in range(3):
            if other != ax and abs(mean[other]) > 1e-8 * abs(case["M"]):
                raise Violation("demag-offdiagonal-mean", f"M along {ax}: mean H = {mean}")
        if mean[ax] / case["M"] > 1e-9 or mean[ax] / case["M"] < -1 - 1e-9:
            raise Violation("demag-factor-range", f"axis {ax}: N = {-mean[ax] / case['M']}")
    if abs(total + 1) > 1e-8:
        raise Violation("demag-factors-sum", f"cells {cell}, n {n}: sum of mean demagnetising field components / M = {total!r}, expected -1")
    edges = [k * c for k, c in zip(n, cell)]
    if max(edges) / min(edges) < 1 + 1e-9:
        m = df.Field(mesh, nvdim=3, value=(case["M"], 0, 0))
        with warnings.catch_warnings():
            warnings.simplefilter("ignore")
            hx = dft.demag_field(m, tensor).mean()[0]
        if abs(hx / case["M"] + 1 / 3) > 1e-8:
            raise Violation("demag-cube-third", f"{hx / case['M']!r}")
        tag("cube")
    # the tensor a caller received is the caller's: changing it in place (sign convention, other labels) must not
    # change what a later call for the same discretisation returns
    keep = tensor.array.copy()
    tensor.array[...] *= -1
    tensor.valid[...] = False
    again = dft.demag_tensor(df.Mesh(p1=(0, 0, 0), p2=[k * c for k, c in zip(n, cell)], n=n))
    if not np.array_equal(again.array, keep) or not again.valid.all():
        raise Violation("demag-tensor-shared-between-calls", f"cells {cell}, n {n}: a second demag_tensor call returns the "
                                                             f"object the first caller modified")


# --------------------------------------------------------------------------- refusals


def enum_refuse(tier):
    for k in ["charge-nvdim", "charge-ndim3", "charge-ndim1", "charge-method", "angle-nvdim", "angle-direction", "angle-units",
              "emergent-nvdim", "emergent-ndim", "bps-ndim", "bps-nvdim", "bps-direction", "density-nvdim"]:
        yield {"kind": k}


def check_refuse(case):
    import discretisedfield as df
    import discretisedfield.tools as dft

    m1 = df.Mesh(p1=0, p2=4, n=4)
    m2 = df.Mesh(p1=(0, 0), p2=(4, 3), n=(4, 3))
    m3 = df.Mesh(p1=(0, 0, 0), p2=(4, 3, 2), n=(4, 3, 2))
    v3 = (0.0, 0.0, 1.0)
    k = case["kind"]
    calls = {
        "charge-nvdim": lambda: dft.topological_charge(df.Field(m2, nvdim=2, value=(1, 0))),
        "charge-ndim3": lambda: dft.topological_charge(df.Field(m3, nvdim=3, value=v3)),
        "charge-ndim1": lambda: dft.topological_charge(df.Field(m1, nvdim=3, value=v3)),
        "charge-method": lambda: dft.topological_charge(df.Field(m2, nvdim=3, value=v3), method="wrong"),
        "density-nvdim": lambda: dft.topological_charge_density(df.Field(m2, nvdim=1, value=1.0)),
        "angle-nvdim": lambda: dft.neighbouring_cell_angle(df.Field(m3, nvdim=2, value=(1, 0)), direction="x"),
        "angle-direction": lambda: dft.neighbouring_cell_angle(df.Field(m3, nvdim=3, value=v3), direction="q"),
        "angle-units": lambda: dft.neighbouring_cell_angle(df.Field(m3, nvdim=3, value=v3), direction="x", units="grad"),
        "emergent-nvdim": lambda: dft.emergent_magnetic_field(df.Field(m3, nvdim=1, value=1.0)),
        "emergent-ndim": lambda: dft.emergent_magnetic_field(df.Field(m2, nvdim=3, value=v3)),
        "bps-ndim": lambda: dft.count_bps(df.Field(m2, nvdim=3, value=v3), direction="x"),
        "bps-nvdim": lambda: dft.count_bps(df.Field(m3, nvdim=1, value=1.0), direction="x"),
        "bps-direction": lambda: dft.count_bps(df.Field(m3, nvdim=3, value=v3), direction="q"),
    }
    try:
        r = calls[k]()
    except (ValueError, TypeError):
        return
    raise Violation(f"not-refused:{k}", f"returned {type(r).__name__}")


def nt_charge(case):
    return case["cell"][0] != case["cell"][1] or case["mask"][0] != "all" or sum(1 for x in case["rot_axis"] if x) > 1


SUBS = [
    Sub("charge", check_charge, charge_case(), nontrivial=nt_charge, quick=60, thorough=600),
    Sub("compact-texture", check_compact, compact_case(), quick=250, thorough=2500),
    Sub("hedgehog", check_hedgehog, hedgehog_case(), nontrivial=lambda c: len(set(c["cell"])) > 1 or c["sphere"], quick=24, thorough=300),
    Sub("angles", check_angles, angle_case(), nontrivial=lambda c: len(set(c["g"]["n"])) > 1, quick=300, thorough=2000),
    Sub("demag", check_demag, demag_case(), nontrivial=lambda c: len(set(c["cell"])) > 1, quick=60, thorough=500),
    Sub("refuse", check_refuse, enum=enum_refuse),
]


# objects with a history (reads that may fill caches, in-place writes): observables equal those of a fresh object
from pbt import aged as _aged  # noqa: E402

SUBS.append(_aged.sub("C19", quick=60))
ASSUMPTIONS = list(ASSUMPTIONS) + ["aged sub-property: library results are a function of the public primary state "
                                   "(corners, n, names, units, bc, subregions, array, validity, labels, mapping, unit)"]

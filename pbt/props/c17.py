"""C17 - xarray export/import is lossless and uses cell centres as coordinates."""
from fractions import Fraction as F

import numpy as np
from hypothesis import strategies as st

from pbt import gen
from pbt.core import Reject, Sub, Violation, require, tag

RULE = (
    "Hypothesis-generated fields (nvdim 1-4, 1-4-d meshes at scales 1e-9..1e3 with offsets, any dimension names, units "
    "incl. the empty string, tolerance factors, float/complex/int, default or custom labels); DataArray attribute sets "
    "complete / each single attribute removed / all geometric attributes removed; broken inputs (one coordinate "
    "displaced by 10-40 % of the spacing under every attribute set, nvdim missing or non-int, vector data without the "
    "vdims axis, non-DataArray); oracle: exact lattice for coordinates, attribute-by-attribute comparison, "
    "rebuild-from-coordinates model; non-trivial = ndim >= 2 or removed attributes"
)
ASSUMPTIONS = [
    "the field unit is exported (attrs['units']) but not restored on import (not claimed, DESIGN section 6)",
    "attribute-free import is exercised with >= 2 cells in every direction (documented requirement)",
]

UNITS = ["m", "nm", "", "s", "T"]


@st.composite
def xr_case(draw, nmin=1):
    g = draw(gen.geom(ndim=(1, 4), nmin=nmin, nmax=5, exps=(-9, 3), maxcells=300, units=False, aniso=True))
    nd = len(g["n"])
    g["units"] = [draw(st.sampled_from(UNITS)) for _ in range(nd)] if draw(st.booleans()) else None
    k = draw(st.integers(1, 4))
    mix = ((draw(st.integers(0, 2**40)) + 0xC17) * 0x9E3779B97F4A7C15) % 2**64 >> 13
    return {"g": g, "k": k, "vdims": draw(gen.vdims_strategy(k)), "seed": draw(st.integers(0, 2**31)),
            # a vector field whose components carry no labels at all (vdims=[])
            "unlabelled": k > 1 and mix % 5 == 0,
            "dtype": draw(st.sampled_from(["float", "float", "complex", "int", "bool", "float32", "uint8"])),
            "unit": draw(st.sampled_from(gen.FIELD_UNITS)),
            "remove": draw(st.sampled_from(["none", "none", "cell", "pmin", "pmax", "tolerance_factor", "coord-units", "geometry",
                                            "geometry+tolerance", "units-attr"])),
            "name": draw(st.sampled_from(["field", "m", "mag_1"])),
            # an identical DataArray whose coords mapping lists the coordinates in another order
            "coords_order": draw(st.sampled_from(["as-exported", "as-exported", "reversed", "shuffled", "reassigned"])),
            "coords_seed": draw(st.integers(0, 1000)), "nonfinite": draw(st.integers(0, 3)) == 0}


def build(case):
    import discretisedfield as df

    g = case["g"]
    n = tuple(g["n"])
    mesh = gen.build_mesh(g)
    arr = gen.make_array(case["seed"], (*n, case["k"]), "int", "complex" if case["dtype"] == "complex" else "float")
    if case.get("nonfinite") and case["dtype"] in ("float", "complex"):
        flat = arr.reshape(-1)
        for j, v in enumerate((float("nan"), float("inf"), float("-inf"), -0.0)):
            flat[(case["seed"] + 7 * j) % flat.size] = v
    dt = {"float": None, "complex": np.complex128, "int": np.int64, "bool": np.bool_, "float32": np.float32,
          "uint8": np.uint8}[case["dtype"]]
    if case["dtype"] == "int":
        arr = arr.astype(np.int64)
    elif case["dtype"] == "bool":
        arr = arr > 0
    elif case["dtype"] == "float32":
        arr = arr.astype(np.float32)
    elif case["dtype"] == "uint8":
        arr = (np.abs(arr) * 25).astype(np.uint8)
    kw = {"vdims": list(case["vdims"])} if case["vdims"] else {}
    if case.get("unlabelled"):
        kw = {"vdims": []}
    f = df.Field(mesh, nvdim=case["k"], value=np.array(arr, copy=True), dtype=dt, unit=case["unit"], **kw)
    if case.get("unlabelled"):
        require(f.vdims is None, "unlabelled-field-has-labels", f"{f.vdims}")
    return mesh, f, arr


def nontrivial(case):
    return len(case["g"]["n"]) >= 2 or case["remove"] != "none"


def check_export(case):
    import xarray as xr

    mesh, f, arr = build(case)
    g = case["g"]
    lat = gen.lattice_of(g)
    dims = gen.dims_of(g)
    units = gen.units_of(g)
    xa = f.to_xarray(name=case["name"])
    require(isinstance(xa, xr.DataArray), "export-type")
    require(xa.name == case["name"], "export-name")
    want_dims = tuple(dims) + (("vdims",) if case["k"] > 1 else ())
    require(tuple(xa.dims) == want_dims, "export-dims", f"{xa.dims} vs {want_dims}")
    for d, dim in enumerate(dims):
        c = xa[dim].values
        require(len(c) == lat.n[d], "export-coord-length")
        for i in range(lat.n[d]):
            if not lat.close(c[i], lat.vertex(d, i) + lat.cell[d] / 2, d):
                raise Violation("export-coords-not-centres", f"dim {dim} coordinate {i}: {c[i]!r} vs centre "
                                                             f"{float(lat.vertex(d, i) + lat.cell[d] / 2)!r}")
        if xa[dim].attrs.get("units") != units[d]:
            raise Violation("export-coord-units", f"dim {dim}: {xa[dim].attrs.get('units')!r} vs {units[d]!r}")
    if case["k"] > 1:
        if f.vdims is None:
            require("vdims" not in xa.coords, "export-vdims-invented", f"{dict(xa.coords).get('vdims')}")
        else:
            require(list(xa["vdims"].values) == list(f.vdims), "export-vdims", f"{list(xa['vdims'].values)}")
        require(np.array_equal(xa.values, arr, equal_nan=True), "export-values")
    else:
        require(np.array_equal(xa.values, arr[..., 0], equal_nan=True), "export-values")
    a = xa.attrs
    require(np.array_equal(a["cell"], mesh.cell), "export-attr-cell")
    require(np.array_equal(a["pmin"], mesh.region.pmin) and np.array_equal(a["pmax"], mesh.region.pmax), "export-attr-corners")
    require(a["nvdim"] == case["k"] and isinstance(a["nvdim"], int), "export-attr-nvdim", f"{a['nvdim']!r}")
    require(a["units"] == f.unit, "export-attr-unit", f"{a['units']!r} vs {f.unit!r}")
    require(a["tolerance_factor"] == mesh.region.tolerance_factor, "export-attr-tolerance")
    xa2 = f.to_xarray(unit="kA/m")
    require(xa2.attrs["units"] == "kA/m", "export-unit-override")
    require(np.array_equal(f.array, arr, equal_nan=True), "export-modified-field")


def check_export_after_mutation(case):
    """coordinates of a second export follow the mesh's current geometry (nothing remembered from the first export)"""
    import discretisedfield as df

    mesh, f, arr = build(case)
    g = case["g"]
    dims = gen.dims_of(g)
    f.to_xarray()
    f.mesh.cells
    how = case["seed"] % 3
    cell = [float(c) for c in mesh.cell]
    vec = tuple((i + 1) * 3 * c for i, c in enumerate(cell))
    if how == 0:
        f.mesh.translate(vec, inplace=True)
    elif how == 1:
        f.mesh.region.translate(vec, inplace=True)  # directly on the region object the mesh holds
    else:
        f.mesh.region.scale(2.0, inplace=True)
    tag(["mesh.translate", "region.translate", "region.scale"][how])
    from pbt.ref.lattice import Lattice
    lat = Lattice([float(x) for x in f.mesh.region.pmin], [float(x) for x in f.mesh.region.pmax], [int(i) for i in f.mesh.n])
    xa = f.to_xarray()
    for d, dim in enumerate(dims):
        c = xa[dim].values
        for i in range(lat.n[d]):
            if not lat.close(c[i], lat.vertex(d, i) + lat.cell[d] / 2, d):
                raise Violation("export-coords-stale", f"dim {dim} coordinate {i}: {c[i]!r}, current centre "
                                                      f"{float(lat.vertex(d, i) + lat.cell[d] / 2)!r}")
    require(np.array_equal(xa.attrs["pmin"], f.mesh.region.pmin) and np.array_equal(xa.attrs["pmax"], f.mesh.region.pmax),
            "export-attrs-stale")
    if all(k >= 2 for k in lat.n):
        back = df.Field.from_xarray(strip(xa, "geometry"))
        for d in range(lat.ndim):
            if abs(F(float(back.mesh.region.pmin[d])) - lat.pmin[d]) > lat.fp_tol(d, 256):
                raise Violation("rebuild-after-mutation", f"axis {d}: {back.mesh.region.pmin[d]!r} vs {float(lat.pmin[d])!r}")


def strip(xa, what):
    xa = xa.copy(deep=True)
    dims = [d for d in xa.dims if d != "vdims"]
    if what in ("cell", "pmin", "pmax", "tolerance_factor"):
        del xa.attrs[what]
    elif what == "units-attr":
        del xa.attrs["units"]
    elif what == "coord-units":
        for d in dims:
            xa[d].attrs.pop("units", None)
    elif what in ("geometry", "geometry+tolerance"):
        for k in ("cell", "pmin", "pmax"):
            del xa.attrs[k]
        if what == "geometry+tolerance":
            del xa.attrs["tolerance_factor"]
    return xa


def reorder_coords(xa, case):
    """the same DataArray (xarray's `identical`) with its coords mapping in another insertion order"""
    import xarray as xr

    mode = case.get("coords_order", "as-exported")
    if mode == "as-exported":
        return xa
    tag("coords-" + mode)
    names = list(xa.coords)
    if mode == "reassigned":
        d = names[case["coords_seed"] % len(names)]
        new = xa.assign_coords({d: xa[d]})
    else:
        if mode == "reversed":
            order = names[::-1]
        else:
            order = list(np.random.default_rng(case["coords_seed"]).permutation(names))
        new = xr.DataArray(xa.values, dims=xa.dims, coords={k: xa.coords[k] for k in order}, attrs=dict(xa.attrs),
                           name=xa.name)
    if not new.identical(xa):
        raise Reject()
    return new


def check_roundtrip(case):
    import discretisedfield as df

    mesh, f, arr = build(case)
    g = case["g"]
    lat = gen.lattice_of(g)
    rm = case["remove"]
    tag("remove=" + rm)
    if rm in ("cell", "geometry", "geometry+tolerance") and any(k == 1 for k in g["n"]):
        raise Reject()
    xa = reorder_coords(strip(f.to_xarray(), rm), case)
    attrs_before = {k_: np.array(v_, copy=True) if isinstance(v_, np.ndarray) else v_ for k_, v_ in xa.attrs.items()}
    coords_before = {k_: np.array(xa[k_].values, copy=True) for k_ in xa.coords}
    back = df.Field.from_xarray(xa)
    # the import reads the DataArray: it leaves the caller's object (attributes, coordinates, values) as it was
    if set(xa.attrs) != set(attrs_before) or any(not np.array_equal(np.asarray(xa.attrs[k_]), np.asarray(v_))
                                                   for k_, v_ in attrs_before.items()):
        raise Violation("import-modifies-dataarray", f"attributes before {sorted(attrs_before)}, after {sorted(xa.attrs)}")
    require(all(np.array_equal(xa[k_].values, v_) for k_, v_ in coords_before.items()), "import-modifies-coordinates")
    if rm != "none":
        # ... so that an import of the same DataArray again, or of a slice of it, is not influenced by the first import
        again = df.Field.from_xarray(xa)
        require(again.mesh == back.mesh and np.array_equal(again.array, back.array, equal_nan=True), "second-import-differs")
    require(back.nvdim == f.nvdim, "import-nvdim")
    require(np.array_equal(back.mesh.n, mesh.n), "import-n", f"{back.mesh.n} vs {mesh.n}")
    require(tuple(back.mesh.region.dims) == tuple(mesh.region.dims), "import-dims")
    exact = rm in ("none", "tolerance_factor", "coord-units", "units-attr", "cell")
    for d in range(lat.ndim):
        for got, want in ((back.mesh.region.pmin[d], mesh.region.pmin[d]), (back.mesh.region.pmax[d], mesh.region.pmax[d])):
            if exact and rm != "cell":
                ok = got == want
            else:
                ok = abs(F(float(got)) - F(float(want))) <= lat.fp_tol(d, 256)
            if not ok:
                raise Violation("import-corners" if exact else "rebuild-corners",
                                f"axis {d}: {got!r} vs {want!r} (attributes removed: {rm})")
    if rm != "coord-units":
        if tuple(back.mesh.region.units) != tuple(mesh.region.units):
            raise Violation("import-units", f"{back.mesh.region.units} vs {mesh.region.units}")
    if rm not in ("tolerance_factor", "geometry+tolerance"):
        require(back.mesh.region.tolerance_factor == mesh.region.tolerance_factor, "import-tolerance",
                f"{back.mesh.region.tolerance_factor}")
    if f.vdims is not None:
        require(list(back.vdims) == list(f.vdims), "import-labels", f"{back.vdims} vs {f.vdims}")
    require(back.array.dtype == f.array.dtype, "import-dtype", f"{back.array.dtype} vs {f.array.dtype}")
    require(np.array_equal(back.array, arr, equal_nan=True), "import-values")
    if rm == "none":
        require((back == f or bool(np.isnan(arr).any())) and back.mesh == mesh, "import-not-equal")


@st.composite
def reject_case(draw):
    c = draw(xr_case(nmin=3))
    nd = len(c["g"]["n"])
    c["bad"] = draw(st.sampled_from(["uneven", "uneven", "uneven", "no-nvdim", "float-nvdim", "zero-nvdim", "no-vdims-axis",
                                     "not-dataarray"]))
    c["axis"] = draw(st.integers(0, nd - 1))
    c["which"] = draw(st.integers(0, 10))
    c["disp"] = draw(st.sampled_from([0.1, 0.25, 0.4, -0.3]))
    c["remove"] = draw(st.sampled_from(["none", "cell", "pmin", "pmax", "geometry", "coord-units"]))
    return c


def check_reject(case):
    import discretisedfield as df

    mesh, f, arr = build(case)
    g = case["g"]
    dims = gen.dims_of(g)
    bad = case["bad"]
    tag(bad)
    xa = strip(f.to_xarray(), case["remove"])
    if bad == "uneven":
        d = dims[case["axis"]]
        vals = xa[d].values.copy()
        i = case["which"] % len(vals)
        spacing = float(mesh.cell[case["axis"]])
        vals[i] += case["disp"] * spacing
        xa = xa.assign_coords({d: (d, vals, xa[d].attrs)})
        tag(f"exp={g['exp']}")
    elif bad == "no-nvdim":
        del xa.attrs["nvdim"]
    elif bad == "float-nvdim":
        xa.attrs["nvdim"] = float(case["k"])
    elif bad == "zero-nvdim":
        xa.attrs["nvdim"] = 0
    elif bad == "no-vdims-axis":
        if case["k"] == 1:
            raise Reject()
        xa = xa.rename({"vdims": "components"})
    elif bad == "not-dataarray":
        xa = xa.values
    try:
        r = df.Field.from_xarray(xa)
    except (ValueError, KeyError, TypeError):
        return
    sig = "uneven-accepted" if bad == "uneven" else f"broken-accepted:{bad}"
    raise Violation(sig, f"{bad} (attributes removed: {case['remove']}, scale 1e{g['exp']}) accepted; mesh n={r.mesh.n}")


SUBS = [
    Sub("export", check_export, xr_case(), nontrivial=nontrivial, quick=400, thorough=2500),
    Sub("roundtrip", check_roundtrip, xr_case(), nontrivial=nontrivial, quick=600, thorough=4000),
    Sub("export-after-mutation", check_export_after_mutation, xr_case(), nontrivial=nontrivial, quick=200, thorough=1200),
    Sub("reject", check_reject, reject_case(), nontrivial=nontrivial, quick=500, thorough=3000),
]


# objects with a history (reads that may fill caches, in-place writes): observables equal those of a fresh object
from pbt import aged as _aged  # noqa: E402

SUBS.append(_aged.sub("C17", quick=250))
ASSUMPTIONS = list(ASSUMPTIONS) + ["aged sub-property: library results are a function of the public primary state "
                                   "(corners, n, names, units, bc, subregions, array, validity, labels, mapping, unit)"]

"""C12 - quarter-turn rotations move values, vectors, validity and geometry together."""
from fractions import Fraction as F
import itertools

import numpy as np
from hypothesis import strategies as st

from pbt import gen
from pbt.core import Reject, Sub, Violation, require, tag
from pbt.ref.lattice import Lattice, EPS

EXHAUSTIVE = True
RULE = (
    "Hypothesis-generated fields on 2-4-d meshes (anisotropic n and cells, nvdim 1 / ndim / 3-on-2d, mapping a "
    "permutation / partial / empty, float and int dtype, masks, 0-2 subregions, pairwise different units, reference "
    "point default / arbitrary / far away); for each field ALL ordered axis pairs x k in -8..8 are enumerated for the "
    "copying form and a drawn subset for the in-place form; oracle: exact affine image of all corners (Fractions), "
    "independent index map for cells, exact integer matrix for the mapped components, point-wise sampling "
    "g(R+Q(p-R)) = Q f(p); non-trivial = n_a != n_b, cell_a != cell_b, non-uniform data, k mod 4 != 0"
)
ASSUMPTIONS = [
    "coordinates compared at 64 eps of the largest coordinate magnitude involved (incl. the reference point)",
    "values compared at rtol 1e-12 (the library multiplies by cos/sin of k*pi/2) - exactly for integer dtypes",
]

UNITS4 = ["m", "s", "T", "rad"]


@st.composite
def rot_case(draw, ndim=(2, 4)):
    g = draw(gen.geom(ndim=ndim, nmin=1, nmax=4, exps=(-9, 0), big_offsets=False, maxcells=120, units=False, tol=False))
    nd = len(g["n"])
    g["units"] = list(draw(st.permutations(UNITS4)))[:nd]
    kind = draw(st.sampled_from(["scalar", "vector", "vector", "partial"]))
    if kind == "scalar":
        k = 1
    elif kind == "vector":
        k = nd
    else:
        k = 3 if nd == 2 else max(2, nd - 1)
    vd = draw(gen.vdims_strategy(k))
    ref = draw(st.sampled_from(["default", "default", "cells", "far", "corner"]))
    refv = None
    if ref == "cells":
        refv = [draw(st.integers(-6, 12)) / 2 for _ in range(nd)]
    elif ref == "corner":
        # a corner of the region itself, handed over with the type the corners were given in (integers stay integers)
        refv = ["corner"] + [draw(st.integers(0, 1)) for _ in range(nd)]
    elif ref == "far":
        refv = [draw(st.sampled_from([-1000.0, 517.5, 1e4])) for _ in range(nd)]
    # far reference points only without subregions: the subregion alignment check uses an absolute 1e-12
    subs = [] if ref == "far" else draw(gen.index_boxes(g["n"], 2))
    return {"g": g, "subs": subs, "k": k, "vdims": vd, "kind": kind,
            "perm": list(draw(st.permutations(range(nd)))), "drop": draw(st.integers(0, 3)),
            "dtype": draw(st.sampled_from(["float", "float", "int", "complex"])), "seed": draw(st.integers(0, 2**31)),
            "huge_int": draw(st.booleans()), "foreign_axis": draw(st.booleans()),
            "mask": draw(gen.mask_spec(nd)), "ref": refv, "ref_type": draw(st.sampled_from(["tuple", "list", "array"])),
            "inplace_picks": [draw(st.integers(0, 10**6)) for _ in range(4)], "unit": draw(st.sampled_from(gen.FIELD_UNITS))}


def mapping_of(case, dims):
    """label -> axis (or None); also component index per axis"""
    k = case["k"]
    labels = case["vdims"] or gen.default_vdims(k)
    if k == 1:
        return labels, None, {}
    nd = len(dims)
    if case["kind"] == "vector":
        m = {labels[c]: dims[case["perm"][c]] for c in range(k)}
    else:  # partial: k != nd; map as many as possible
        tg = [dims[i] for i in case["perm"]][:k] + [None] * max(0, k - nd)
        m = {labels[c]: tg[c] for c in range(k)}
        m = {l: t for l, t in m.items() if t is not None}
        if len(m) != k:
            # vdim_mapping must have all labels as keys (values may be None)
            m = {labels[c]: (tg[c]) for c in range(k)}
            if case.get("foreign_axis"):
                # what a plane cut of a higher-dimensional field carries: the component of the axis cut away stays
                # mapped to that axis' name, which the mesh no longer has - an unmapped component for the rotation
                foreign = next(x for x in ("z", "w", "out") if x not in dims)
                m = {l: (foreign if t is None else t) for l, t in m.items()}
    comp_on_axis = {}
    for c, l in enumerate(labels):
        t = m.get(l)
        if t is not None and t in dims:
            comp_on_axis[dims.index(t)] = c
    return labels, m, comp_on_axis


def build(case, with_mapping=True):
    import discretisedfield as df

    g = case["g"]
    n = tuple(g["n"])
    k = case["k"]
    mesh = gen.build_mesh(g, subs=case["subs"])
    dims = gen.dims_of(g)
    labels, m, coa = mapping_of(case, dims)
    arr = gen.make_array(case["seed"], (*n, k), "int", "float")
    if case["dtype"] == "int":
        arr = arr.astype(np.int64)
        if case.get("huge_int"):
            # components beyond 2**53: exact in int64, not in float64
            arr = arr * (2**57 + 12345) + np.arange(arr.size, dtype=np.int64).reshape(arr.shape) * 7 + 1
    elif case["dtype"] == "complex":
        # independent imaginary parts: a rotation acts on real and imaginary parts alike
        arr = arr + 1j * gen.make_array(case["seed"] + 17, (*n, k), "int", "float")
    kw = {}
    if case["vdims"]:
        kw["vdims"] = list(case["vdims"])
    if k > 1:
        items = list(m.items())
        # the dict may list the labels in any order (not necessarily the order of vdims)
        np.random.default_rng(case["seed"] + case["drop"]).shuffle(items)
        kw["vdim_mapping"] = dict(items) if with_mapping else {}
    f = df.Field(mesh, nvdim=k, value=np.array(arr, copy=True), dtype={"int": np.int64, "complex": np.complex128}.get(case["dtype"]),
                 valid=gen.make_mask(case["mask"], n), unit=case["unit"], **kw)
    return mesh, f, arr, coa


def ref_point(case, lat):
    if case["ref"] is None:
        return None, [(lat.pmin[d] + lat.pmax[d]) / 2 for d in range(lat.ndim)]
    conv = {"tuple": tuple, "list": list, "array": np.array}[case["ref_type"]]
    if case["ref"][0] == "corner":
        g = case["g"]
        vals = [(g["p2"] if bit else g["p1"])[d] for d, bit in enumerate(case["ref"][1:])]
        return conv(vals), [F(v) for v in vals]
    if all(isinstance(x, float) and abs(x) >= 100 for x in case["ref"]):
        vals = [float(x) * float(lat.cell[d]) for d, x in enumerate(case["ref"])]
    else:
        vals = [float(lat.pmin[d] + F(x) * lat.cell[d]) for d, x in enumerate(case["ref"])]
    conv = {"tuple": tuple, "list": list, "array": np.array}[case["ref_type"]]
    return conv(vals), [F(v) for v in vals]


def rot_pt(pt, R, a, b, k):
    """exact image of a point (list of Fractions) under k quarter turns from axis a to axis b about R"""
    out = list(pt)
    xa, xb = pt[a] - R[a], pt[b] - R[b]
    for _ in range(k % 4):
        xa, xb = -xb, xa
    out[a], out[b] = R[a] + xa, R[b] + xb
    return out


def image_box(lo, hi, R, a, b, k):
    p, q = rot_pt(lo, R, a, b, k), rot_pt(hi, R, a, b, k)
    return [min(x, y) for x, y in zip(p, q)], [max(x, y) for x, y in zip(p, q)]


def index_map(arr, a, b, k):
    out = arr
    for _ in range(k % 4):
        out = np.flip(np.swapaxes(out, a, b), axis=a)
    return out


def rotate_components(vals, coa, a, b, k, int_exact):
    out = vals.copy()
    if a in coa and b in coa:
        ca, cb = coa[a], coa[b]
        va, vb = vals[..., ca].copy(), vals[..., cb].copy()
        for _ in range(k % 4):
            va, vb = -vb, va
        out[..., ca], out[..., cb] = va, vb
    return out


def coord_tol(lat, R, d):
    mag = max(lat.mag[d], abs(R[d]), abs(lat.pmin[d] - R[d]), abs(lat.pmax[d] - R[d]))
    return F(64 * EPS) * mag


def close_box(region, lo, hi, tols, what, sig):
    for d in range(len(lo)):
        if abs(F(float(region.pmin[d])) - lo[d]) > tols[d] or abs(F(float(region.pmax[d])) - hi[d]) > tols[d]:
            raise Violation(sig, f"{what} axis {d}: [{region.pmin[d]}, {region.pmax[d]}] expected "
                                 f"[{float(lo[d])}, {float(hi[d])}]")


def reg_close(r1, r2, atol):
    return bool(np.all(np.abs(np.asarray(r1.pmin, float) - np.asarray(r2.pmin, float)) <= atol)
                and np.all(np.abs(np.asarray(r1.pmax, float) - np.asarray(r2.pmax, float)) <= atol))


def mesh_close(m1, m2, atol):
    # region, cell counts, subregions - and what the meshes *say* their cell size is (edges / n, whatever the mesh was
    # created from and whatever happened to it since)
    cell_ok = np.allclose(np.asarray(m1.cell, float), np.asarray(m2.cell, float), rtol=1e-9, atol=0) and \
        np.allclose(np.asarray(m1.cell, float) * np.asarray(m1.n), np.asarray(m1.region.edges, float), rtol=1e-9, atol=0)
    return cell_ok and reg_close(m1.region, m2.region, atol) and np.array_equal(m1.n, m2.n) and \
        list(m1.subregions) == list(m2.subregions) and \
        all(reg_close(m1.subregions[s], m2.subregions[s], atol) for s in m1.subregions)


def snapshot(f):
    m = f.mesh
    return (f.array.tobytes(), f.array.shape, f.valid.tobytes(), m.region.pmin.tobytes(), m.region.pmax.tobytes(),
            tuple(int(i) for i in m.n), tuple(m.region.units), tuple(m.region.dims),
            tuple((k, s.pmin.tobytes(), s.pmax.tobytes(), tuple(s.units)) for k, s in m.subregions.items()),
            None if f.vdims is None else tuple(f.vdims), tuple(sorted((a, str(b)) for a, b in f.vdim_mapping.items())))


def nontrivial(case):
    n = case["g"]["n"]
    lat = gen.lattice_of(case["g"])
    cells = [float(c) for c in lat.cell]
    return len(set(n)) > 1 and len({round(c / min(cells), 6) for c in cells}) > 1


def verify_result(case, gf, lat, arr, valid, coa, a, b, k, R, tag_):
    """gf: rotated field (copy or in place) compared with the model"""
    nd = lat.ndim
    dims = gen.dims_of(case["g"])
    tols = [max(coord_tol(lat, R, a), coord_tol(lat, R, b)) if d in (a, b) else coord_tol(lat, R, d) for d in range(nd)]
    lo, hi = image_box(lat.pmin, lat.pmax, R, a, b, k)
    close_box(gf.mesh.region, lo, hi, tols, "region", f"{tag_}-region")
    want_n = list(lat.n)
    want_units = list(case["g"]["units"])
    if k % 2 == 1:
        want_n[a], want_n[b] = want_n[b], want_n[a]
        want_units[a], want_units[b] = want_units[b], want_units[a]
    require([int(i) for i in gf.mesh.n] == want_n, f"{tag_}-n", f"{gf.mesh.n} vs {want_n}")
    if list(gf.mesh.region.units) != want_units:
        raise Violation(f"{tag_}-units", f"units {gf.mesh.region.units}, expected {want_units} (k={k})")
    require(list(gf.mesh.region.dims) == dims, f"{tag_}-dims")
    # cells, validity
    exp_arr = rotate_components(index_map(arr, a, b, k), coa, a, b, k, case["dtype"] == "int")
    exp_valid = index_map(valid, a, b, k)
    require(gf.array.shape == exp_arr.shape, f"{tag_}-shape", f"{gf.array.shape} vs {exp_arr.shape}")
    if case["dtype"] == "int":
        if not np.array_equal(gf.array, exp_arr):
            i = tuple(np.argwhere(gf.array != exp_arr)[0])
            raise Violation(f"{tag_}-int-values", f"integer field, axes ({a},{b}) k={k}: cell {i[:-1]} comp {i[-1]} "
                                                  f"is {gf.array[i]}, exact rotation gives {exp_arr[i]}")
    elif not np.allclose(gf.array, exp_arr, rtol=1e-12, atol=1e-12 * max(1.0, float(np.max(np.abs(arr))))):
        raise Violation(f"{tag_}-values", f"axes ({a},{b}) k={k}: values differ from Q f(p) at the rotated cells")
    if not np.array_equal(gf.valid, exp_valid):
        raise Violation(f"{tag_}-validity", f"axes ({a},{b}) k={k}")
    # subregions
    want = {name for name, _, _ in case["subs"]}
    require(set(gf.mesh.subregions) == want and list(gf.mesh.subregions) == [s[0] for s in case["subs"]],
            f"{tag_}-subregion-names")
    for name, slo, shi in case["subs"]:
        p = [lat.vertex(d, slo[d]) for d in range(nd)]
        q = [lat.vertex(d, shi[d]) for d in range(nd)]
        blo, bhi = image_box(p, q, R, a, b, k)
        close_box(gf.mesh.subregions[name], blo, bhi, tols, f"subregion {name}", f"{tag_}-subregion")
        if list(gf.mesh.subregions[name].units) != want_units:
            raise Violation(f"{tag_}-subregion-units", f"{name}: {gf.mesh.subregions[name].units} vs {want_units}")
    require((gf.vdims is None and case["k"] == 1) or list(gf.vdims) == list(case["vdims"] or gen.default_vdims(case["k"])),
            f"{tag_}-labels")


def check_rotations(case):
    import discretisedfield as df

    g = case["g"]
    lat = gen.lattice_of(g)
    nd = lat.ndim
    dims = gen.dims_of(g)
    mesh, f, arr, coa = build(case)
    valid = f.valid.copy()
    ref_arg, R = ref_point(case, lat)
    tag(f"ndim={nd}")
    tag(case["kind"])
    tag("ref-" + ("default" if ref_arg is None else "given"))
    snap = snapshot(f)
    atol = 4 * float(max(coord_tol(lat, R, d) for d in range(nd)))
    pairs = [(a, b) for a in range(nd) for b in range(nd) if a != b]
    combos = [(a, b, k) for (a, b) in pairs for k in range(-8, 9)]
    rng = np.random.default_rng(case["seed"])
    for (a, b, k) in combos:
        mapped = case["k"] == 1 or (a in coa and b in coa)
        kw = {} if ref_arg is None else {"reference_point": ref_arg}
        if not mapped:
            # refusal: vector field lacking the mapping for a or b
            try:
                r = f.rotate90(dims[a], dims[b], **gen.nd_kw(k=k, **kw))
            except Exception:  # noqa: BLE001
                if snapshot(f) != snap:
                    raise Violation("refused-but-modified", f"axes ({a},{b}) k={k}") from None
                continue
            raise Violation("unmapped-not-refused", f"vector field without mapping for axes ({dims[a]},{dims[b]}) rotated")
        gf = f.rotate90(dims[a], dims[b], **gen.nd_kw(k=k, **kw))
        require(isinstance(gf, df.Field) and gf is not f, "copy-returns-new-object")
        verify_result(case, gf, lat, arr, valid, coa, a, b, k, R, "copy")
        if snapshot(f) != snap:
            raise Violation("copy-modified-original", f"axes ({a},{b}) k={k}")
        # consistency of region / mesh / field
        gm = mesh.rotate90(dims[a], dims[b], **gen.nd_kw(k=k, **kw))
        gr = mesh.region.rotate90(dims[a], dims[b], **gen.nd_kw(k=k, **kw))
        require(mesh_close(gf.mesh, gm, atol), "field-mesh-inconsistent", f"({a},{b}) k={k}")
        require(reg_close(gm.region, gr, atol) and tuple(gm.region.units) == tuple(gr.units), "mesh-region-inconsistent")
        # k and k mod 4 agree
        if not (-1 < k < 4):
            g4 = f.rotate90(dims[a], dims[b], **gen.nd_kw(k=k % 4, **kw))
            require(mesh_close(g4.mesh, gf.mesh, atol)
                    and np.allclose(g4.array, gf.array, rtol=1e-12, atol=1e-12) and np.array_equal(g4.valid, gf.valid),
                    "k-mod-4", f"({a},{b}) k={k} vs {k % 4}")
        # a turn followed by its reverse (about the same point) is the identity
        if k in (1, 2, 3, -1, 5):
            Rfix = ref_arg if ref_arg is not None else tuple(float(x) for x in R)
            back = gf.rotate90(dims[a], dims[b], k=-k, reference_point=Rfix)
            require(mesh_close(back.mesh, mesh, 2 * atol), "inverse-mesh", f"({a},{b}) k={k}")
            require(np.allclose(back.array, arr, rtol=1e-12, atol=1e-12) and np.array_equal(back.valid, valid),
                    "inverse-values", f"({a},{b}) k={k}")
        # point-wise: g(R + Q(p - R)) = Q f(p)
        if k % 4 and case["dtype"] != "int":
            for _ in range(2):
                idx = tuple(int(rng.integers(0, m)) for m in lat.n)
                p = lat.centre(idx)
                q = [float(x) for x in rot_pt(p, R, a, b, k)]
                want = rotate_components(arr[idx][np.newaxis, :].astype(complex if case["dtype"] == "complex" else float),
                                         coa, a, b, k, False)[0]
                got = gf(tuple(q))
                if not np.allclose(got, want, rtol=1e-12, atol=1e-12):
                    raise Violation("pointwise", f"axes ({a},{b}) k={k}: f{idx}={arr[idx]} but g({q})={got}, expected {want}")
    # the copying form returns objects of their own: whatever is done to the copies in place afterwards (full turns
    # k = 0, +-4, 8 included) leaves the originals as they are
    snap_m = (mesh.region.pmin.tobytes(), mesh.region.pmax.tobytes(), tuple(int(i) for i in mesh.n),
              tuple((nm, s_.pmin.tobytes(), s_.pmax.tobytes()) for nm, s_ in mesh.subregions.items()))
    for (a, b, k) in combos[:: max(1, len(combos) // 6)]:
        if case["k"] > 1 and not (a in coa and b in coa):
            continue
        kw = {} if ref_arg is None else {"reference_point": ref_arg}
        copies = [f.rotate90(dims[a], dims[b], **gen.nd_kw(k=k, **kw)), mesh.rotate90(dims[a], dims[b], **gen.nd_kw(k=k, **kw)),
                  mesh.region.rotate90(dims[a], dims[b], **gen.nd_kw(k=k, **kw))]
        shift = tuple(float(c) for c in lat.cell)
        copies[0].mesh.translate(shift, inplace=True)
        copies[0].mesh.rotate90(dims[a], dims[b], inplace=True)
        copies[0].array[...] = 0
        copies[0].valid[...] = False
        copies[1].translate(shift, inplace=True)
        copies[1].rotate90(dims[b], dims[a], inplace=True)
        copies[2].scale(2.0, inplace=True)
        now_m = (mesh.region.pmin.tobytes(), mesh.region.pmax.tobytes(), tuple(int(i) for i in mesh.n),
                 tuple((nm, s_.pmin.tobytes(), s_.pmax.tobytes()) for nm, s_ in mesh.subregions.items()))
        if snapshot(f) != snap or now_m != snap_m:
            raise Violation("copy-shares-state-with-original", f"in-place changes of the copies returned for axes ({a},{b}) "
                                                               f"k={k} changed the original")
    # in-place form on fresh objects for a drawn subset
    mapped_combos = [(a, b, k) for (a, b, k) in combos if case["k"] == 1 or (a in coa and b in coa)]
    for pick in case["inplace_picks"]:
        if not mapped_combos:
            break
        a, b, k = mapped_combos[pick % len(mapped_combos)]
        kw = {} if ref_arg is None else {"reference_point": ref_arg}
        _, f2, _, _ = build(case)
        r = f2.rotate90(dims[a], dims[b], **gen.nd_kw(k=k, inplace=True, **kw))
        require(r is f2, "inplace-not-self")
        verify_result(case, f2, lat, arr, valid, coa, a, b, k, R, "inplace")
        # region and mesh in place
        m2 = gen.build_mesh(g, subs=case["subs"])
        rm = m2.rotate90(dims[a], dims[b], **gen.nd_kw(k=k, inplace=True, **kw))
        require(rm is m2, "inplace-mesh-not-self")
        mc = mesh.rotate90(dims[a], dims[b], **gen.nd_kw(k=k, **kw))
        require(mesh_close(m2, mc, atol), "inplace-mesh-differs-from-copy")
        if tuple(m2.region.units) != tuple(mc.region.units):
            raise Violation("inplace-units", f"in place {m2.region.units}, copy {mc.region.units} (k={k})")
        r2 = gen.build_region(g)
        rr = r2.rotate90(dims[a], dims[b], **gen.nd_kw(k=k, inplace=True, **kw))
        rc = mesh.region.rotate90(dims[a], dims[b], **gen.nd_kw(k=k, **kw))
        require(rr is r2 and reg_close(r2, rc, atol), "inplace-region-differs-from-copy")
        if tuple(r2.units) != tuple(rc.units):
            raise Violation("inplace-units", f"region in place {r2.units}, copy {rc.units} (k={k})")


def check_refuse_inplace(case):
    """vector field without mapping: in-place rotation refused AND object unchanged"""
    g = case["g"]
    if case["k"] == 1:
        raise Reject()
    dims = gen.dims_of(g)
    how = case["inplace_picks"][0] % 4
    dims_ = gen.dims_of(g)
    if how == 0:
        _, f, arr, _ = build(case, with_mapping=False)
    elif how == 3:
        # exactly ONE axis of the rotation plane has no component (the other one and all remaining axes may)
        _, f, arr, _ = build(case, with_mapping=True)
        a_, b_ = case["perm"][0], case["perm"][1]
        gone = dims_[b_] if case["inplace_picks"][1] % 2 else dims_[a_]
        m = {lab: (None if ax == gone else ax) for lab, ax in dict(f.vdim_mapping).items()}
        if gone not in dict(f.vdim_mapping).values():
            raise Reject()
        other = dims_[a_] if gone == dims_[b_] else dims_[b_]
        if other not in m.values():
            raise Reject()  # both unmapped: that is how == 0
        f.vdim_mapping = m
    else:
        # a mapped field that loses its labels (and with them the mapping); how == 2: new labels afterwards
        _, f, arr, _ = build(case, with_mapping=True)
        f.vdims = []
        require(f.vdims is None, "labels-not-removed", f"{f.vdims}")
        if how == 2:
            f.vdims = [f"w{c}" for c in range(case["k"])]
            # the setter's own invariant: the keys of the mapping are component labels
            require(set(f.vdim_mapping) <= set(f.vdims), "mapping-keys-not-labels", f"{f.vdim_mapping} vs {f.vdims}")
            require(np.array_equal((-f).array, -arr), "relabelled-negation")
            if f.vdim_mapping:
                raise Reject()  # a mapping survived the relabelling: nothing to refuse
    tag(f"unmapped-how={how}")
    snap = snapshot(f)
    a, b = case["perm"][0], case["perm"][1]
    k = 1 + case["drop"]
    for inplace in (False, True):
        try:
            f.rotate90(dims[a], dims[b], **gen.nd_kw(k=k, inplace=inplace))
        except Exception:  # noqa: BLE001
            if snapshot(f) != snap:
                shp = f.array.shape
                raise Violation("refused-but-modified", f"inplace={inplace}: refused rotation left mesh n={f.mesh.n} "
                                                        f"with array shape {shp}") from None
            continue
        raise Violation("unmapped-not-refused", f"inplace={inplace}")
    # malformed arguments are rejected without modification
    for bad in ({"ax1": dims[a], "ax2": dims[a]}, {"ax1": dims[a], "ax2": "nodim"}, {"ax1": dims[a], "ax2": dims[b], "k": 1.5}):
        for inplace in (False, True):
            try:
                f.mesh.rotate90(inplace=inplace, **bad)
            except Exception:  # noqa: BLE001
                require(snapshot(f) == snap, "malformed-modified")
                continue
            raise Violation("malformed-accepted", f"{bad}")


SUBS = [
    Sub("rotations", check_rotations, rot_case(), nontrivial=nontrivial, quick=60, thorough=500),
    Sub("rotations-2d", check_rotations, rot_case(ndim=2), nontrivial=nontrivial, quick=60, thorough=400),
    Sub("refuse", check_refuse_inplace, rot_case(), quick=150, thorough=800),
]


# objects with a history (reads that may fill caches, in-place writes): observables equal those of a fresh object
from pbt import aged as _aged  # noqa: E402

SUBS.append(_aged.sub("C12", quick=250))
ASSUMPTIONS = list(ASSUMPTIONS) + ["aged sub-property: library results are a function of the public primary state "
                                   "(corners, n, names, units, bc, subregions, array, validity, labels, mapping, unit)"]

"""C14 - subregions always stay inside, aligned with and measured in cells of their mesh."""
from fractions import Fraction as F
import os
import tempfile

import numpy as np
from hypothesis import strategies as st

from pbt import gen
from pbt.core import Reject, Sub, Violation, require, tag
from pbt.props import c13

RULE = (
    "Hypothesis-generated meshes (1-4 d, scales 1e-9..1, offsets <= 12 cells) with sets of valid index boxes "
    "(overlapping, touching, full-mesh, single-cell) and invalid candidates derived by a stated defect (shifted / "
    "stretched by a fraction of a cell, pushed outside, all cells beyond); model-based histories of assign / translate "
    "/ scale / rotate90 (both forms) / sel plane / sel range (bounds at centres, vertices, interior, exactly on "
    "subregion faces) / mesh[name] / JSON and HDF5 save-reload with the invariant after every step and an index-space "
    "model for selections; pairs of meshes with constructed alignment truth; non-trivial = >= 2 subregions that "
    "overlap or share a face, or a selection bound on a subregion face"
)
ASSUMPTIONS = [
    "index-space model: a subregion is the integer box round((corner - pmin)/cell); invariant tolerance 1e-6 cell",
    "scales 1e-9..1 and bounded coordinates: the alignment tolerance is an absolute 1e-12 (DESIGN section 6)",
]


def idx_box(mesh, sr):
    lo = (np.asarray(sr.pmin, float) - np.asarray(mesh.region.pmin, float)) / np.asarray(mesh.cell, float)
    hi = (np.asarray(sr.pmax, float) - np.asarray(mesh.region.pmin, float)) / np.asarray(mesh.cell, float)
    return [int(round(x)) for x in lo], [int(round(x)) for x in hi]


def boxes_of(mesh):
    return {name: idx_box(mesh, sr) for name, sr in mesh.subregions.items()}


def touching_or_overlapping(subs):
    for i in range(len(subs)):
        for j in range(i + 1, len(subs)):
            a, b = subs[i], subs[j]
            if all(a[1][d] <= b[2][d] and b[1][d] <= a[2][d] for d in range(len(a[1]))):
                return True
    return False


# --------------------------------------------------------------------------- assignment


@st.composite
def assign_case(draw):
    g = draw(gen.geom(ndim=(1, 4), nmax=6, exps=(-9, 0), big_offsets=False, maxcells=500))
    nd = len(g["n"])
    subs = draw(gen.index_boxes(g["n"], 3))
    base = draw(gen.index_boxes(g["n"], 1, min_boxes=1))[0]
    defect = draw(st.sampled_from(["none", "none", "shift", "stretch", "outside", "beyond", "other-names", "not-dict",
                                   "bad-key", "not-region"]))
    return {"g": g, "subs": subs, "cand": base, "defect": defect, "axis": draw(st.integers(0, nd - 1)),
            "frac": draw(st.integers(1, 19)) / 20, "side": draw(st.integers(0, 1)),
            "how": draw(st.sampled_from(["setter", "constructor"]))}


def check_assign(case):
    import discretisedfield as df

    g = case["g"]
    lat = gen.lattice_of(g)
    nd = lat.ndim
    mesh = gen.build_mesh(g, subs=case["subs"])
    dims, units = gen.dims_of(g), gen.units_of(g)
    before = c13.snap_mesh(mesh)
    c13.check_mesh_inv(mesh, "initial")
    _, lo, hi = case["cand"]
    ax, fr, defect = case["axis"], F(case["frac"]), case["defect"]
    tag(defect)
    a = [lat.vertex(d, lo[d]) for d in range(nd)]
    b = [lat.vertex(d, hi[d]) for d in range(nd)]
    valid = True
    kw = {}
    if defect == "shift":
        a[ax] += fr * lat.cell[ax]
        b[ax] += fr * lat.cell[ax]
        valid = False
    elif defect == "stretch":
        if case["side"]:
            b[ax] += fr * lat.cell[ax]
        else:
            a[ax] -= fr * lat.cell[ax]
        valid = False
    elif defect == "outside":
        if case["side"]:
            b[ax] = lat.pmax[ax] + (1 + (case["frac"] > 0.5)) * lat.cell[ax]
        else:
            a[ax] = lat.pmin[ax] - (1 + (case["frac"] > 0.5)) * lat.cell[ax]
        valid = False
    elif defect == "beyond":
        w = b[ax] - a[ax]
        a[ax] = lat.pmax[ax] + 2 * lat.cell[ax]
        b[ax] = a[ax] + w
        valid = False
    elif defect == "other-names":
        kw = {"dims": [f"q{d}" for d in range(nd)], "units": ["V"] * nd, "tolerance_factor": 1e-7}
    cand = df.Region(p1=[float(x) for x in a], p2=[float(x) for x in b], **kw)
    new = {name: mesh.subregions[name] for name in mesh.subregions}
    new["cand"] = cand
    if defect == "not-dict":
        new, valid = [cand], False
    elif defect == "bad-key":
        new, valid = {1: cand}, False
    elif defect == "not-region":
        new, valid = {"cand": (tuple(float(x) for x in a), tuple(float(x) for x in b))}, False

    def assign():
        if case["how"] == "setter":
            mesh.subregions = new
            return mesh
        return df.Mesh(region=mesh.region, n=mesh.n, subregions=new)

    if valid:
        m2 = assign()
        require(list(m2.subregions) == [s[0] for s in case["subs"]] + ["cand"], "accept-names", f"{list(m2.subregions)}")
        c13.check_mesh_inv(m2, "after valid assignment")
        got = idx_box(m2, m2.subregions["cand"])
        require(got == (lo, hi), "accept-box", f"{got} vs {(lo, hi)}")
        sr = m2.subregions["cand"]
        if tuple(sr.dims) != tuple(dims) or tuple(sr.units) != tuple(units):
            raise Violation("metadata-not-overwritten", f"subregion carries dims {sr.dims} units {sr.units}")
        # what the mesh holds is its own: the Region handed in (or the same dict attached to a second mesh) may be
        # moved in place afterwards, and the mesh may be transformed in place, without the other side noticing
        held = c13.snap_mesh(m2)
        cand_snap = (cand.pmin.tobytes(), cand.pmax.tobytes())
        other = df.Mesh(region=df.Region(p1=mesh.region.pmin, p2=mesh.region.pmax), n=mesh.n, subregions=new)
        other_snap = c13.snap_mesh(other)
        cand.translate(tuple(0.5 * float(c) for c in lat.cell), inplace=True)
        cand.scale(0.5, inplace=True)
        if c13.snap_mesh(m2) != held or c13.snap_mesh(other) != other_snap:
            raise Violation("subregion-shared-with-caller", "moving the Region that was handed in changed the subregion "
                                                            "held by the mesh")
        c13.check_mesh_inv(m2, "after the caller moved its Region")
        cand_snap = (cand.pmin.tobytes(), cand.pmax.tobytes())
        m2.translate(tuple(3 * float(c) for c in lat.cell), inplace=True)
        if c13.snap_mesh(other) != other_snap or (cand.pmin.tobytes(), cand.pmax.tobytes()) != cand_snap:
            raise Violation("subregion-shared-between-meshes", "an in-place translation of one mesh moved the subregions "
                                                               "of a second mesh built from the same dictionary")
        c13.check_mesh_inv(other, "after the first mesh moved")
        # copies that change nothing (a translation by zero, a scaling by one, a full turn) are copies all the same:
        # moving one of them, or the mesh itself, in place leaves the others - region AND subregions - where they were
        zero = [tuple(0 for _ in range(nd)), tuple(0.0 for _ in range(nd)), np.zeros(nd), [0] * nd][case["side"] + 2 * (ax % 2)]
        twins = [("translate(0)", m2.translate(zero)), ("scale(1)", m2.scale(1)), ("scale(1.0)", m2.scale(1.0))]
        if nd >= 2:
            twins.append(("rotate90(k=4)", m2.rotate90(dims[0], dims[1], k=4)))
            twins.append(("rotate90(k=0)", m2.rotate90(dims[0], dims[1], k=0)))
        for name, tw in twins:
            require(tw is not m2, "neutral-copy-is-the-object", name)
            mine, theirs = c13.snap_mesh(m2), c13.snap_mesh(tw)
            tw.translate(tuple(2 * float(c) for c in tw.cell), inplace=True)
            tw.scale(2.0, inplace=True)
            if c13.snap_mesh(m2) != mine:
                raise Violation("neutral-copy-shares-state", f"moving the result of {name} in place moved the mesh it came from")
            c13.check_mesh_inv(m2, f"after the result of {name} moved")
            theirs = c13.snap_mesh(tw)
            m2.translate(tuple(-float(c) for c in m2.cell), inplace=True)
            if c13.snap_mesh(tw) != theirs:
                raise Violation("neutral-copy-shares-state", f"moving the mesh in place moved the result of {name}")
            c13.check_mesh_inv(tw, f"result of {name} after the source moved")
        tag("neutral-copies")
        # one reference point in every accepted spelling (tuple, list, array; a plain number in 1-d; the origin included):
        # region and subregions are scaled about the SAME point, so all spellings give the same mesh
        for ref_vals in ([0.0] * nd, [float(c) for c in m2.cell]):
            forms = {"tuple": tuple(ref_vals), "list": list(ref_vals), "array": np.array(ref_vals)}
            if nd == 1:
                forms.update({"number": ref_vals[0], "numpy-number": np.float64(ref_vals[0]), "int-number": int(ref_vals[0])
                              if float(ref_vals[0]).is_integer() else ref_vals[0]})
            outcomes = {}
            for fname, ref in forms.items():
                try:
                    outcomes[fname] = c13.snap_mesh(m2.scale(2.0, reference_point=ref))
                except ValueError as e:
                    outcomes[fname] = "ValueError: " + str(e)[:60]
            if len({repr(v) for v in outcomes.values()}) != 1:
                diff = {k_: (v if isinstance(v, str) else "ok") for k_, v in outcomes.items()}
                raise Violation("reference-point-spelling", f"scaling about {ref_vals} depends on how the point is written: {diff}")
        tag("reference-spellings")
    else:
        try:
            assign()
        except (ValueError, TypeError, AttributeError):
            if c13.snap_mesh(mesh) != before:
                raise Violation("rejected-but-changed", f"{defect}: previous subregions were not kept") from None
            return
        raise Violation(f"invalid-accepted:{defect}", f"candidate {[float(x) for x in a]}..{[float(x) for x in b]} "
                                                      f"on a mesh with cell {[float(c) for c in lat.cell]} was accepted")


# --------------------------------------------------------------------------- histories


@st.composite
def hstep(draw, nd):
    kind = draw(st.sampled_from(["translate", "scale", "rot", "plane", "range", "range", "name", "json", "h5"]))
    if kind in ("translate", "scale", "rot"):
        s = draw(c13.step_strategy(nd).filter(lambda s: s[0] == kind))
        return s
    return [kind, draw(st.integers(0, 3)), draw(st.integers(0, 11)), draw(st.integers(0, 11)),
            draw(st.sampled_from(["c", "v", "f", "face"])), draw(st.sampled_from(["c", "v", "f", "face"]))]


@st.composite
def hist_case(draw):
    nd = draw(st.sampled_from([1, 2, 2, 3, 3, 4]))
    if draw(st.integers(0, 2)) == 0:
        # integer-typed corners (region and, mostly, subregions) with fractional cells: clipped faces are not integers
        g = draw(gen.geom_int(ndim=nd))
        g["int_subs"] = draw(st.integers(0, 3)) > 0
    else:
        g = draw(gen.geom(ndim=nd, nmin=1, nmax=5, exps=(-9, 0), big_offsets=False, maxcells=300, tol=False))
    return {"g": g, "subs": draw(gen.index_boxes(g["n"], 3, min_boxes=1)),
            "steps": draw(st.lists(hstep(nd), min_size=1, max_size=6))}


@st.composite
def hist_case_int(draw):
    """selections first, on integer-typed regions and subregions with fractional cells (clip faces are not integers)"""
    nd = draw(st.sampled_from([1, 2, 2, 3]))
    g = draw(gen.geom_int(ndim=nd, fractional=True))
    g["int_subs"] = True
    sel = st.tuples(st.sampled_from(["range", "range", "plane"]), st.integers(0, 3), st.integers(0, 11), st.integers(0, 11),
                    st.sampled_from(["c", "v", "f", "face"]), st.sampled_from(["c", "v", "f", "face"])).map(list)
    return {"g": g, "subs": draw(gen.index_boxes(g["n"], 3, min_boxes=1)),
            "steps": draw(st.lists(sel, min_size=1, max_size=2)) + draw(st.lists(hstep(nd), min_size=0, max_size=2))}


def coord_at(mesh, d, kind, i, boxes):
    """coordinate on axis d: centre / vertex / interior of cell i, or a subregion face"""
    pmin, cell, n = float(mesh.region.pmin[d]), float(mesh.cell[d]), int(mesh.n[d])
    if kind == "face" and boxes:
        faces = sorted({b[0][d] for b in boxes.values()} | {b[1][d] for b in boxes.values()})
        k = faces[i % len(faces)]
        return float(F(pmin) + F(k) * F(cell)) if k < n else float(mesh.region.pmax[d]), ("v", k)
    i = i % n
    if kind == "v" or kind == "face":
        k = i
        return float(F(pmin) + F(k) * F(cell)), ("v", k)
    if kind == "c":
        return float(F(pmin) + (F(i) + F(1, 2)) * F(cell)), ("c", i)
    return float(F(pmin) + (F(i) + F(3, 10)) * F(cell)), ("f", i)


def check_history(case):
    import discretisedfield as df

    g = case["g"]
    fresh = gen.build_mesh(g, subs=case["subs"])
    # the caller's Region objects are reused: one of them under two names, and all of them for a second mesh
    shared = dict(fresh.subregions) if not g.get("dims") else {k: df.Region(p1=v.pmin, p2=v.pmax) for k, v in fresh.subregions.items()}
    shared = {k: df.Region(p1=v.pmin.copy(), p2=v.pmax.copy()) for k, v in shared.items()}
    shared["dup"] = shared[case["subs"][0][0]]
    mesh = df.Mesh(region=gen.build_region(g), n=g["n"], subregions=shared)
    other = df.Mesh(region=gen.build_region(g), n=g["n"], subregions=shared)
    other_snap = c13.snap_mesh(other)

    def fresh_twin(m):
        return df.Mesh(region=df.Region(p1=m.region.pmin.copy(), p2=m.region.pmax.copy(), dims=m.region.dims, units=m.region.units),
                       n=m.n, bc=m.bc, subregions={k: df.Region(p1=v.pmin.copy(), p2=v.pmax.copy()) for k, v in m.subregions.items()})

    cell0 = [float(c) for c in mesh.cell]
    if touching_or_overlapping(case["subs"]):
        tag("touching-or-overlapping")
    for si, step in enumerate(case["steps"]):
        if c13.snap_mesh(other) != other_snap:
            raise Violation("other-mesh-modified", f"a mesh sharing the caller's Region objects changed when another mesh "
                                                   f"was transformed in place (before step {si})")
        kind = step[0]
        nd = mesh.region.ndim
        dims = list(mesh.region.dims)
        boxes = boxes_of(mesh)
        n = [int(i) for i in mesh.n]
        if kind in ("translate", "scale", "rot"):
            if len(cell0) != nd:
                continue
            if kind == "rot" and (nd < 2 or step[1] >= nd or step[2] >= nd or step[1] == step[2]):
                continue
            lo, hi = c13.frac(mesh.region.pmin), c13.frac(mesh.region.pmax)
            centre = [(lo[d] + hi[d]) / 2 for d in range(nd)]
            if len(step[1]) != nd if kind == "translate" else False:
                continue
            if kind == "scale" and ((isinstance(step[1], list) and len(step[1]) != nd) or (step[2] is not None and len(step[2]) != nd)):
                continue
            if kind == "rot" and step[4] is not None and len(step[4]) != nd:
                continue
            elo, ehi, _ = c13.expected_box(lo, hi, step, centre, cell0)
            nn = list(n)
            if kind == "rot" and step[3] % 2:
                nn[step[1]], nn[step[2]] = nn[step[2]], nn[step[1]]
            if not c13.within_budget(elo, ehi, lo, hi, cell0, nn):
                tag("skipped-budget")
                continue
            names = list(mesh.subregions)
            twin = c13.call("mesh", fresh_twin(mesh), step, cell0, False)
            r = c13.call("mesh", mesh, step, cell0, step[-1])
            mesh = r
            require(list(mesh.subregions) == names, "transform-lost-subregions", f"{list(mesh.subregions)} vs {names}")
            if boxes_of(mesh) != boxes_of(twin):
                raise Violation("transform-subregions-differ-from-fresh-twin",
                                f"step {step}: subregion index boxes {boxes_of(mesh)} but a mesh built from fresh Region "
                                f"objects gives {boxes_of(twin)} (aliased Region objects transformed twice?)")
            tag(kind)
        elif kind == "plane":
            if nd < 2:
                continue
            d = step[1] % nd
            x, (ck, ci) = coord_at(mesh, d, step[4] if step[4] != "face" else "c", step[2], boxes)
            if ck == "v":
                x, (ck, ci) = coord_at(mesh, d, "c", step[2], boxes)
            res = mesh.sel(**{dims[d]: x})
            keep = [i for i in range(nd) if i != d]
            want = {nm: ([b[0][i] for i in keep], [b[1][i] for i in keep]) for nm, b in boxes.items()
                    if b[0][d] <= ci < b[1][d]}
            c13.check_mesh_inv(res, f"after plane selection step {si}")
            got = boxes_of(res)
            if got != want or list(res.subregions) != [nm for nm in boxes if nm in want]:
                raise Violation("plane-subregions", f"axis {d} cell {ci}: kept {got}, expected {want} (from {boxes})")
            mesh = res
            cell0 = [cell0[i] for i in keep]
            tag("plane")
        elif kind == "range":
            d = step[1] % nd
            xa, sa = coord_at(mesh, d, step[4], step[2], boxes)
            xb, sb = coord_at(mesh, d, step[5], step[3], boxes)
            on_face = any(s[0] == "v" and any(s[1] in (b[0][d], b[1][d]) for b in boxes.values()) for s in (sa, sb))
            if on_face:
                tag("range-bound-on-subregion-face")
            try:
                res = mesh.sel(**{dims[d]: (xa, xb)})
            except ValueError as e:
                raise Violation("range-raises", f"sel({dims[d]}=({xa}, {xb})) on {boxes}: {str(e)[:160]}") from None
            c13.check_mesh_inv(res, f"after range selection step {si}")
            ia = int(round((float(res.region.pmin[d]) - float(mesh.region.pmin[d])) / float(mesh.cell[d])))
            ib = ia + int(res.n[d]) - 1
            want = {}
            for nm, b in boxes.items():
                if b[0][d] <= ib and b[1][d] > ia:
                    lo_ = list(b[0])
                    hi_ = list(b[1])
                    lo_[d] = max(lo_[d], ia) - ia
                    hi_[d] = min(hi_[d], ib + 1) - ia
                    want[nm] = (lo_, hi_)
            got = boxes_of(res)
            if got != want or list(res.subregions) != [nm for nm in boxes if nm in want]:
                raise Violation("range-subregions", f"axis {d} cells {ia}..{ib}: kept {got}, expected {want} (from {boxes})")
            mesh = res
            tag("range")
        elif kind == "name":
            if not boxes:
                continue
            name = list(boxes)[step[2] % len(boxes)]
            sub = mesh[name]
            sr = mesh.subregions[name]
            if not (np.array_equal(sub.region.pmin, sr.pmin) and np.array_equal(sub.region.pmax, sr.pmax)):
                raise Violation("named-extraction-region", f"{name}: {sub.region.pmin}..{sub.region.pmax} vs {sr.pmin}..{sr.pmax}")
            require(tuple(sub.region.dims) == tuple(dims) and tuple(sub.region.units) == tuple(mesh.region.units),
                    "named-extraction-names")
            if not np.allclose(sub.cell, mesh.cell, rtol=1e-9, atol=0):
                raise Violation("named-extraction-cell", f"{sub.cell} vs {mesh.cell}")
            lo_, hi_ = boxes[name]
            require([int(i) for i in sub.n] == [h - l for l, h in zip(lo_, hi_)], "named-extraction-n", f"{sub.n}")
            tag("name")
        elif kind in ("json", "h5"):
            with tempfile.TemporaryDirectory() as tmp:
                if kind == "json":
                    path = os.path.join(tmp, "m.omf")
                    mesh.save_subregions(path)
                    m2 = df.Mesh(region=mesh.region, n=mesh.n, bc=mesh.bc)
                    m2.load_subregions(path)
                else:
                    path = os.path.join(tmp, "m.h5")
                    df.Field(mesh, nvdim=1, value=1.0).to_file(path)
                    m2 = df.Field.from_file(path).mesh
            require(list(m2.subregions) == list(mesh.subregions), f"reload-{kind}-names", f"{list(m2.subregions)}")
            for nm, sr in mesh.subregions.items():
                s2 = m2.subregions[nm]
                if not (np.array_equal(s2.pmin, sr.pmin) and np.array_equal(s2.pmax, sr.pmax)):
                    raise Violation(f"reload-{kind}-corners", f"{nm}: {sr.pmin}..{sr.pmax} reloaded as {s2.pmin}..{s2.pmax}")
            mesh = m2
            tag(kind)
        c13.check_mesh_inv(mesh, f"after step {si} {step}")
    if c13.snap_mesh(other) != other_snap:
        raise Violation("other-mesh-modified", "a mesh sharing the caller's Region objects changed when another mesh was "
                                               "transformed in place")


def nt_hist(case):
    return len(case["subs"]) >= 2 and touching_or_overlapping(case["subs"])


# --------------------------------------------------------------------------- is_aligned


@st.composite
def aligned_case(draw):
    g = draw(gen.geom(ndim=(1, 4), nmax=5, exps=(-9, 0), big_offsets=False, maxcells=300, tol=False))
    nd = len(g["n"])
    kind = draw(st.sampled_from(["integer", "integer", "fraction", "cellsize"]))
    return {"g": g, "kind": kind, "shift": [draw(st.integers(-8, 8)) for _ in range(nd)],
            "n2": [draw(st.integers(1, 5)) for _ in range(nd)], "axis": draw(st.integers(0, nd - 1)),
            "frac": draw(st.integers(1, 19)) / 20, "ratio": draw(st.sampled_from([1.01, 0.97, 1.5, 2.0, 0.5]))}


def check_aligned(case):
    import discretisedfield as df

    g = case["g"]
    lat = gen.lattice_of(g)
    nd = lat.ndim
    m1 = gen.build_mesh(g)
    kind, ax = case["kind"], case["axis"]
    tag(kind)
    cell = list(lat.cell)
    shift = [F(s) for s in case["shift"]]
    # the documented tolerance is an absolute 1e-12: stay a decade away from it (DESIGN section 3)
    if kind == "fraction":
        if min(case["frac"], 1 - case["frac"]) * float(lat.cell[ax]) < 1e-11:
            raise Reject()
        shift[ax] += F(case["frac"])
    if kind == "cellsize":
        if abs(case["ratio"] - 1) * float(lat.cell[ax]) < 1e-11:
            raise Reject()
        cell[ax] = cell[ax] * F(case["ratio"])
    p1 = [lat.pmin[d] + shift[d] * lat.cell[d] for d in range(nd)]
    p2 = [p1[d] + case["n2"][d] * cell[d] for d in range(nd)]
    m2 = df.Mesh(p1=[float(x) for x in p1], p2=[float(x) for x in p2], n=case["n2"])
    expect = kind == "integer"
    for a, b in ((m1, m2), (m2, m1)):
        got = a.is_aligned(b)
        if bool(got) != expect:
            raise Violation(f"is-aligned:{kind}", f"offset {[float(s) for s in shift]} cells, cell ratio "
                                                  f"{case['ratio'] if kind == 'cellsize' else 1}: is_aligned -> {got}")
    require(m1.is_aligned(m1), "is-aligned-self")


SUBS = [
    Sub("assign", check_assign, assign_case(), quick=600, thorough=4000),
    Sub("history", check_history, hist_case(), nontrivial=nt_hist, quick=400, thorough=3000),
    Sub("history-int-typed", check_history, hist_case_int(), nontrivial=nt_hist, quick=300, thorough=2000),
    Sub("is-aligned", check_aligned, aligned_case(), quick=500, thorough=3000),
]


# objects with a history (reads that may fill caches, in-place writes): observables equal those of a fresh object
from pbt import aged as _aged  # noqa: E402

SUBS.append(_aged.sub("C14", quick=250))
ASSUMPTIONS = list(ASSUMPTIONS) + ["aged sub-property: library results are a function of the public primary state "
                                   "(corners, n, names, units, bc, subregions, array, validity, labels, mapping, unit)"]

#!/venv/bin/python
"""Coverage-guided fuzzing of the OVF reader (C09) with the semantic oracle inside the target.

The fuzzer's bytes are decoded into a *structured* mutation of a small valid OVF file (so that the reader's
logic is reached instead of dying in header parsing): choice of a base file, then a sequence of mutations of
the data block (flip / delete / insert / truncate), of the check value, of the numeric header values that
determine the expected size (nodes, valuedim) and of the binary width.  Header keys are never touched, so the
independent reader (pbt/ref/ovf_ref.py) and the library interpret the same header.

Oracle (the property's fault clause plus a differential clause):
  * the independent reader says "wrong check value" or "short data block"  =>  Field.from_file must raise;
  * both readers accept                                                       =>  same cell counts and same data.

Run as a script under atheris:   pbt/fuzz_ovf.py -runs=20000 -seed=1 <corpus_dir>
`target(data)` is a pure function of `data` and can be replayed without atheris.
"""
import os
import struct
import sys
import tempfile
import warnings

HERE = os.path.dirname(os.path.abspath(__file__))
VERIF = os.path.dirname(HERE)
sys.path.insert(0, VERIF)
sys.path.insert(0, os.environ.get("VERIF_REPO", "/repo"))
if os.path.isdir(os.path.join(VERIF, ".deps")):
    sys.path.append(os.path.join(VERIF, ".deps"))
os.environ.setdefault("MPLBACKEND", "Agg")
warnings.simplefilter("ignore")

import numpy as np  # noqa: E402

from pbt.ref import ovf_ref  # noqa: E402

_BASES = None
_TMP = None


class FuzzViolation(Exception):
    def __init__(self, sig, msg):
        super().__init__(f"{sig}: {msg}")
        self.sig, self.msg = sig, msg


def bases():
    """small valid files: library writer (bin8, bin4) and the independent writer (OVF 1.0 and 2.0)"""
    global _BASES
    if _BASES is not None:
        return _BASES
    import discretisedfield as df

    out = []
    with tempfile.TemporaryDirectory() as tmp:
        for i, (n, k, rep) in enumerate([((2, 1, 2), 3, "bin8"), ((1, 2, 1), 1, "bin4"), ((2, 2, 1), 2, "bin8")]):
            mesh = df.Mesh(p1=(0, 0, 0), p2=(n[0] * 1e-9, n[1] * 2e-9, n[2] * 0.5e-9), n=n)
            arr = np.arange(int(np.prod(n)) * k, dtype=float).reshape(*n, k) + 0.5
            path = os.path.join(tmp, f"b{i}.ovf")
            df.Field(mesh, nvdim=k, value=arr).to_file(path, representation=rep)
            out.append(open(path, "rb").read())
        for i, (ver, mode) in enumerate([(1, "bin4"), (1, "bin8"), (2, "bin4")]):
            n = (2, 1, 1) if i else (1, 1, 3)
            arr = np.arange(int(np.prod(n)) * 3, dtype=float).reshape(*n, 3) - 1.25
            path = os.path.join(tmp, f"r{i}.ovf")
            ovf_ref.write(path, pmin=(0, 0, 0), pmax=(n[0] * 1.0, n[1] * 2.0, n[2] * 3.0), n=n, data=arr, version=ver, mode=mode)
            out.append(open(path, "rb").read())
    _BASES = out
    return out


def split(raw):
    i = raw.index(b"# Begin: Data")
    j = raw.index(b"\n", i) + 1
    return raw[:j], raw[j:]


def mutate(data):
    """decode fuzzer bytes into a mutated file; returns bytes"""
    bs = bases()
    if not data:
        return bs[0]
    pos = 0

    def take(k=1):
        nonlocal pos
        chunk = data[pos:pos + k]
        pos += k
        return int.from_bytes(chunk.ljust(k, b"\0"), "little")

    raw = bs[take() % len(bs)]
    header, body = split(raw)
    body = bytearray(body)
    nops = take() % 6
    for _ in range(nops):
        op = take() % 8
        if op == 0 and body:  # flip a bit in the data block (incl. check value)
            i = take(2) % len(body)
            body[i] ^= 1 << (take() % 8)
        elif op == 1 and body:  # truncate
            body = body[: take(2) % (len(body) + 1)]
        elif op == 2 and body:  # delete a slice
            i = take(2) % len(body)
            del body[i:i + 1 + take() % 16]
        elif op == 3:  # insert bytes
            i = take(2) % (len(body) + 1)
            body[i:i] = bytes([take()]) * (1 + take() % 9)
        elif op == 4:  # corrupt the check value specifically
            width = 8 if b"Binary 8" in header else 4
            choice = take() % 4
            val = [0.0, float("nan"), 1234567.0 if width == 8 else 123456789012345.0, -1.0][choice]
            endian = "<" if b"OVF 2.0" in header.split(b"\n", 1)[0] else ">"
            body[:width] = struct.pack(endian + ("d" if width == 8 else "f"), val)
        elif op == 5:  # change a size-determining header value (keys stay intact)
            key = [b"xnodes", b"ynodes", b"znodes", b"valuedim"][take() % 4]
            new = str(1 + take() % 4).encode()
            lines = header.split(b"\n")

            def get(k):
                for line in lines:
                    if line.startswith(b"# " + k + b":"):
                        return float(line.split(b":", 1)[1])
                return None

            for li, line in enumerate(lines):
                if line.startswith(b"# " + key + b":"):
                    lines[li] = b"# " + key + b": " + new
            if key != b"valuedim":
                # keep the header self-consistent: max = min + nodes * stepsize
                ax = key[:1]
                lo, step = get(ax + b"min"), get(ax + b"stepsize")
                if lo is not None and step is not None:
                    for li, line in enumerate(lines):
                        if line.startswith(b"# " + ax + b"max:"):
                            lines[li] = b"# " + ax + b"max: " + repr(lo + int(new) * step).encode()
            header = b"\n".join(lines)
        elif op == 6:  # binary width 4 <-> 8
            if b"Binary 8" in header:
                header = header.replace(b"Data Binary 8", b"Data Binary 4")
            else:
                header = header.replace(b"Data Binary 4", b"Data Binary 8")
        else:  # byte-swap the first value after the check value
            width = 8 if b"Binary 8" in header else 4
            seg = body[width:2 * width]
            body[width:2 * width] = seg[::-1]
    return bytes(header) + bytes(body)


def target(data):
    """raises FuzzViolation if the oracle fails for the file encoded by `data`"""
    global _TMP
    import discretisedfield as df

    raw = mutate(bytes(data))
    try:
        ref = ovf_ref.read(raw)
        ref_err = None
    except ovf_ref.OVFError as e:
        ref, ref_err = None, str(e)
    except Exception:  # noqa: BLE001 - malformed beyond what the reference decodes: no expectation
        return
    if _TMP is None:
        _TMP = tempfile.mkdtemp(prefix="verif-fuzz-ovf-")
    path = os.path.join(_TMP, "f.ovf")
    with open(path, "wb") as fh:
        fh.write(raw)
    try:
        f = df.Field.from_file(path)
    except Exception:  # noqa: BLE001 - rejection is always allowed
        return
    if ref_err is not None:
        if ref_err.startswith("check value") or ref_err.startswith("short data block") or ref_err.startswith("no check value"):
            raise FuzzViolation("fuzz-damaged-file-accepted", f"{ref_err}; Field.from_file returned a field of shape {f.array.shape}")
        return
    if tuple(int(i) for i in f.mesh.n) != tuple(ref["n"]) or f.array.shape != ref["data"].shape:
        raise FuzzViolation("fuzz-shape-differs", f"{f.array.shape} vs independent reader {ref['data'].shape}")
    if not np.array_equal(f.array, ref["data"], equal_nan=True):
        raise FuzzViolation("fuzz-values-differ", "library and independent reader decode different values")


def main():
    import atheris

    bases()

    def one(data):
        try:
            target(data)
        except FuzzViolation:
            raise

    atheris.instrument_imports  # noqa: B018 (documented entry point; instrumentation below)
    atheris.Setup(sys.argv, one)
    atheris.Fuzz()


if __name__ == "__main__":
    try:
        import atheris

        with atheris.instrument_imports(include=["discretisedfield.io.ovf", "discretisedfield.io"]):
            import discretisedfield  # noqa: F401
    except ImportError:
        print("atheris not available", file=sys.stderr)
        sys.exit(3)
    main()

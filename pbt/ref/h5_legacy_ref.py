"""Independent writer of the legacy HDF5 layout (discretisedfield < 0.90): never imports discretisedfield.

Layout (datasets, no attributes):  field/mesh/region/p1, field/mesh/region/p2, field/mesh/n (i4),
field/dim (i4), field/array (nx, ny, nz, dim)
"""
import h5py
import numpy as np


def write(path, p1, p2, n, array):
    array = np.asarray(array)
    with h5py.File(path, "w") as f:
        gfield = f.create_group("field")
        gmesh = gfield.create_group("mesh")
        gregion = gmesh.create_group("region")
        gregion.create_dataset("p1", data=np.asarray(p1))
        gregion.create_dataset("p2", data=np.asarray(p2))
        gmesh.create_dataset("n", dtype="i4", data=np.asarray(n))
        gfield.create_dataset("dim", dtype="i4", data=array.shape[-1])
        gfield.create_dataset("array", data=array)

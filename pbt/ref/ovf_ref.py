"""Independent OVF 1.0 / 2.0 reader and writer, written from the OOMMF OVF specification.

Never imports discretisedfield.  Data are numpy arrays indexed (ix, iy, iz, component); in the file
x runs fastest.  Only what the specification says is relied on:
  OVF 2.0: '# OOMMF OVF 2.0', little-endian binary, valuedim / valuelabels / valueunits
  OVF 1.0: '# OOMMF: rectangular mesh v1.0', big-endian (MSB) binary, always 3 components, valueunit
  binary blocks start with the check value 1234567.0 (4-byte) or 123456789012345.0 (8-byte)
"""
import re
import struct

import numpy as np

CHECK = {4: 1234567.0, 8: 123456789012345.0}


class OVFError(Exception):
    pass


def write(path, *, pmin, pmax, n, data, version=2, mode="bin8", meshunit="m", labels=None, units=None,
          trailing_blank=False, crlf=False, title="ref"):
    """data: array (nx, ny, nz, valuedim)"""
    nx, ny, nz = (int(i) for i in n)
    data = np.asarray(data, dtype=float)
    vd = data.shape[-1]
    if version == 1 and vd != 3:
        raise ValueError("OVF 1.0 stores 3 components")
    step = [(float(b) - float(a)) / k for a, b, k in zip(pmin, pmax, (nx, ny, nz))]
    base = [float(a) + s / 2 for a, s in zip(pmin, step)]
    nl = "\r\n" if crlf else "\n"
    H = []
    if version == 2:
        H.append("# OOMMF OVF 2.0")
    else:
        H.append("# OOMMF: rectangular mesh v1.0")
    H += ["# Segment count: 1", "# Begin: Segment", "# Begin: Header", f"# Title: {title}",
          "# Desc: written by the independent reference writer", f"# meshunit: {meshunit}", "# meshtype: rectangular"]
    for ax, b in zip("xyz", base):
        H.append(f"# {ax}base: {b!r}")
    for ax, s in zip("xyz", step):
        H.append(f"# {ax}stepsize: {s!r}")
    for ax, k in zip("xyz", (nx, ny, nz)):
        H.append(f"# {ax}nodes: {k}")
    for ax, v in zip("xyz", pmin):
        H.append(f"# {ax}min: {float(v)!r}")
    for ax, v in zip("xyz", pmax):
        H.append(f"# {ax}max: {float(v)!r}")
    if version == 2:
        H.append(f"# valuedim: {vd}")
        labs = labels or [f"c{i}" for i in range(vd)]
        H.append("# valuelabels: " + " ".join(labs))
        H.append("# valueunits: " + " ".join(units or ["A/m"] * vd))
    else:
        H.append(f"# valueunit: {(units or ['A/m'])[0]}")
        H.append("# valuemultiplier: 1")
        mags = np.linalg.norm(data.reshape(-1, 3), axis=1)
        H.append(f"# ValueRangeMinMag: {float(mags.min())!r}")
        H.append(f"# ValueRangeMaxMag: {float(mags.max())!r}")
    H.append("# End: Header")
    flat = data.transpose(2, 1, 0, 3).reshape(-1, vd)  # x fastest
    if mode == "txt":
        dtag = "Text"
    else:
        nb = 4 if mode == "bin4" else 8
        dtag = f"Binary {nb}"
    H.append(f"# Begin: Data {dtag}")
    out = (nl.join(H) + nl).encode("ascii")
    if mode == "txt":
        rows = []
        for r in flat:
            row = " ".join(repr(float(x)) for x in r)
            rows.append(row + (" " if trailing_blank else ""))
        out += (nl.join(rows) + nl).encode("ascii")
    else:
        end = "<" if version == 2 else ">"
        ch = "f" if nb == 4 else "d"
        out += struct.pack(end + ch, CHECK[nb])
        with np.errstate(over="ignore"):
            out += flat.astype(end + ch).tobytes()
        out += b"\n"
    out += (f"# End: Data {dtag}" + nl + "# End: Segment" + nl).encode("ascii")
    with open(path, "wb") as f:
        f.write(out)
    return out


def read(raw):
    """Decode an OVF file held in bytes -> dict(version, header, mode, data (nx,ny,nz,vd))."""
    first_nl = raw.find(b"\n")
    if first_nl < 0:
        raise OVFError("no header")
    first = raw[:first_nl].decode("ascii", "replace").strip()
    if re.fullmatch(r"#\s*OOMMF\s+OVF\s+2\.0", first):
        version = 2
    elif re.fullmatch(r"#\s*OOMMF:\s*rectangular mesh v1\.0", first):
        version = 1
    else:
        raise OVFError(f"unknown first line {first!r}")
    header = {}
    pos = first_nl + 1
    mode = None
    while True:
        nlp = raw.find(b"\n", pos)
        if nlp < 0:
            raise OVFError("header not terminated by a data block")
        line = raw[pos:nlp].decode("utf-8", "replace").rstrip("\r")
        pos = nlp + 1
        if not line.startswith("#"):
            raise OVFError(f"non-comment line in header: {line!r}")
        body = line[1:].strip()
        m = re.fullmatch(r"[Bb]egin:\s*[Dd]ata\s+(.*)", body)
        if m:
            mode = m.group(1).strip()
            break
        if ":" in body:
            k, v = body.split(":", 1)
            header[k.strip().lower()] = v.strip()
    vd = int(header["valuedim"]) if version == 2 else 3
    nx, ny, nz = (int(header[f"{a}nodes"]) for a in "xyz")
    count = nx * ny * nz * vd
    ml = mode.lower()
    if ml.startswith("binary"):
        nb = int(ml.split()[1])
        if nb not in (4, 8):
            raise OVFError("bad binary width")
        end = "<" if version == 2 else ">"
        ch = "f" if nb == 4 else "d"
        if len(raw) < pos + nb:
            raise OVFError("no check value")
        (chk,) = struct.unpack(end + ch, raw[pos:pos + nb])
        if chk != CHECK[nb]:
            raise OVFError(f"check value {chk!r}")
        pos += nb
        need = count * nb
        if len(raw) < pos + need:
            raise OVFError("short data block")
        flat = np.frombuffer(raw[pos:pos + need], dtype=end + ch).astype(float)
        pos += need
        rest = raw[pos:].decode("ascii", "replace")
        if not re.match(r"\s*#\s*[Ee]nd:\s*[Dd]ata\s+[Bb]inary\s+" + str(nb), rest):
            raise OVFError(f"data block not closed: {rest[:40]!r}")
    elif ml == "text":
        rest = raw[pos:].decode("ascii", "replace")
        vals = []
        closed = False
        for line in rest.splitlines():
            s = line.strip()
            if s.startswith("#"):
                if re.match(r"#\s*[Ee]nd:\s*[Dd]ata\s+[Tt]ext", s):
                    closed = True
                    break
                continue
            if s:
                vals.extend(float(t) for t in s.split())
        if not closed:
            raise OVFError("text data block not closed")
        if len(vals) != count:
            raise OVFError(f"{len(vals)} numbers, expected {count}")
        flat = np.array(vals, dtype=float)
    else:
        raise OVFError(f"unknown data mode {mode!r}")
    data = flat.reshape(nz, ny, nx, vd).transpose(2, 1, 0, 3)
    return {"version": version, "header": header, "mode": ml, "valuedim": vd, "n": (nx, ny, nz), "data": data}

"""Exact rational model of the cell lattice (never imports discretisedfield).

Built from the *float* corners that the library receives and integer cell counts;
everything else is exact ``Fraction`` arithmetic.
"""
from fractions import Fraction as F
import itertools
import sys

EPS = sys.float_info.epsilon


class Lattice:
    def __init__(self, p1, p2, n):
        self.ndim = len(n)
        self.n = [int(i) for i in n]
        a = [F(x) for x in p1]
        b = [F(x) for x in p2]
        self.pmin = [min(x, y) for x, y in zip(a, b)]
        self.pmax = [max(x, y) for x, y in zip(a, b)]
        self.edges = [hi - lo for lo, hi in zip(self.pmin, self.pmax)]
        self.cell = [e / k for e, k in zip(self.edges, self.n)]
        # natural magnitude of a coordinate on each axis (for FP tolerances)
        self.mag = [max(abs(lo), abs(hi), e) for lo, hi, e in zip(self.pmin, self.pmax, self.edges)]

    # --- exact geometry -----------------------------------------------------
    def centre(self, idx):
        return [self.pmin[d] + (F(idx[d]) + F(1, 2)) * self.cell[d] for d in range(self.ndim)]

    def vertex(self, d, k):
        return self.pmin[d] + F(k) * self.cell[d]

    def indices(self):
        """x-fastest enumeration (first dimension fastest)."""
        for rev in itertools.product(*[range(k) for k in reversed(self.n)]):
            yield tuple(reversed(rev))

    def fp_tol(self, d, ulps=64):
        return F(ulps * EPS) * self.mag[d]

    def close(self, x, exact, d, ulps=64):
        """float x equals exact Fraction up to a few ulps of the coordinate magnitude."""
        return abs(F(float(x)) - exact) <= self.fp_tol(d, ulps)

    def admissible_axis(self, d, x, tol):
        """indices of cells on axis d whose closed interval widened by tol contains x"""
        x = F(float(x))
        tol = F(tol)
        c = self.cell[d]
        # candidates around floor
        k0 = (x - self.pmin[d]) / c
        base = k0.numerator // k0.denominator  # floor
        out = []
        for i in range(base - 2, base + 3):
            if 0 <= i < self.n[d]:
                lo = self.pmin[d] + i * c
                hi = lo + c
                if lo - tol <= x <= hi + tol:
                    out.append(i)
        return out

    def admissible(self, point, tol_per_axis):
        return [self.admissible_axis(d, point[d], tol_per_axis[d]) for d in range(self.ndim)]

    def inside(self, point, margin=None):
        """strictly inside closed box shrunk/grown by margin (per axis Fractions, may be <0)"""
        for d in range(self.ndim):
            m = F(0) if margin is None else F(margin[d])
            x = F(float(point[d]))
            if not (self.pmin[d] + m <= x <= self.pmax[d] - m):
                return False
        return True

    def point(self, spec):
        """Probe described relative to the lattice -> list of floats.

        spec = list per axis of ["c", i] centre of cell i, ["v", k] vertex k,
        ["f", i, frac] inside cell i at fraction frac, ["o", side, margin_cells]
        outside by margin_cells cells beyond pmin (side 0) / pmax (side 1).
        Floats are computed with the library-independent formula in exact arithmetic
        and then rounded once.
        """
        out = []
        for d, s in enumerate(spec):
            kind = s[0]
            if kind == "c":
                v = self.pmin[d] + (F(s[1]) + F(1, 2)) * self.cell[d]
            elif kind == "v":
                v = self.pmin[d] + F(s[1]) * self.cell[d]
            elif kind == "f":
                v = self.pmin[d] + (F(s[1]) + F(s[2])) * self.cell[d]
            elif kind == "o":
                m = F(s[2]) * self.cell[d]
                v = self.pmin[d] - m if s[1] == 0 else self.pmax[d] + m
            else:
                raise ValueError(kind)
            out.append(float(v))
        return out

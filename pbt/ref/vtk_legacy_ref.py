"""Independent writer of the legacy VTK layout of discretisedfield <= 0.61 (point data at the cell centres).

Never imports discretisedfield.  x runs fastest in the data block.
"""
import numpy as np


def write(path, centres, data):
    """centres: three 1-d arrays of cell-centre coordinates; data: array (nx, ny, nz, dim), dim 1 or 3"""
    nx, ny, nz = (len(c) for c in centres)
    dim = data.shape[-1]
    lines = ["# vtk DataFile Version 3.0", "Field", "ASCII", "DATASET RECTILINEAR_GRID", f"DIMENSIONS {nx} {ny} {nz}"]
    for ax, c in zip("XYZ", centres):
        lines.append(f"{ax}_COORDINATES {len(c)} float")
        lines.append(" ".join(repr(float(v)) for v in c))
    lines.append(f"POINT_DATA {nx * ny * nz}")
    flat = np.asarray(data, dtype=float).transpose(2, 1, 0, 3).reshape(-1, dim)

    def scalars(name, col):
        out = [f"SCALARS {name} double", "LOOKUP_TABLE default"]
        out += [repr(float(v)) for v in col]
        return out

    if dim == 1:
        lines += scalars("field", flat[:, 0])
    else:
        for i, nm in enumerate(("x-component", "y-component", "z-component")):
            lines += scalars(nm, flat[:, i])
        lines.append("VECTORS field double")
        lines += [" ".join(repr(float(v)) for v in row) for row in flat]
    with open(path, "w") as f:
        f.write("\n".join(lines) + "\n")

"""Core of the property-based checking framework (see ../DESIGN.md section 2).

A *case* is a JSON-serialisable value.  A *sub-property* couples a Hypothesis
strategy (or a finite enumeration) producing cases with a plain function
``check(case)`` that raises :class:`Violation`.  The runner executes every
sub-property of a property (in worker processes), buckets failures by
``(sub, signature)``, writes one replay file per bucket, honours
``KNOWN_FINDINGS.json`` and writes ``evidence/<id>.json``.

Exit codes: 0 held / 1 violation / 2 harness error.
"""

from __future__ import annotations

import collections
import hashlib
import importlib
import itertools
import json
import os
import sys
import time
import traceback

VERIF = os.path.dirname(os.path.dirname(os.path.abspath(__file__)))
REPO = os.environ.get("VERIF_REPO", "/repo")
OUT = os.environ.get("VERIF_OUT", VERIF)  # evidence/ and replays/ are written below this
FAILFAST = os.environ.get("VERIF_FAILFAST") == "1"  # mutant runs only: first violation ends the run


class Violation(Exception):
    """The property does not hold for this case."""

    def __init__(self, sig, msg=""):
        super().__init__(f"{sig}: {msg}")
        self.sig = sig
        self.msg = msg


class HarnessError(Exception):
    pass


class Reject(Exception):
    """Case is outside the sound domain (counted, never a violation)."""


# ---------------------------------------------------------------------------
# per-process bookkeeping used by the checks

_TAGS = collections.Counter()


_EXTRA = {"evaluations": 0}


def add_evaluations(n):
    """executions performed inside one check beyond the case itself (e.g. a fuzzing campaign's runs)"""
    _EXTRA["evaluations"] += int(n)


def tag(name):
    """Classify the current case (class histogram in the evidence)."""
    _TAGS[str(name)] += 1


def require(cond, sig, msg=""):
    if not cond:
        raise Violation(sig, msg() if callable(msg) else msg)


def canon(case):
    return json.dumps(case, sort_keys=True, default=_json_default)


def _json_default(o):
    import numpy as np

    if isinstance(o, (np.integer,)):
        return int(o)
    if isinstance(o, (np.floating,)):
        return float(o)
    if isinstance(o, (np.bool_,)):
        return bool(o)
    if isinstance(o, np.ndarray):
        return o.tolist()
    if isinstance(o, complex):
        return {"re": o.real, "im": o.imag}
    if isinstance(o, (set, frozenset)):
        return sorted(o)
    return repr(o)


def case_hash(case):
    return hashlib.sha1(canon(case).encode()).hexdigest()


# ---------------------------------------------------------------------------


class Sub:
    """One sub-property.

    strategy : Hypothesis strategy of cases, or None when ``enum`` is given
    enum     : callable(tier) -> iterable of cases (finite, complete enumeration)
    check    : callable(case) raising Violation
    nontrivial : callable(case) -> bool
    quick / thorough : number of generated cases per shard
    shards_thorough : number of differently seeded worker shards in the thorough tier
    """

    def __init__(
        self,
        name,
        check,
        strategy=None,
        enum=None,
        nontrivial=None,
        quick=200,
        thorough=None,
        shards_thorough=8,
        rule="",
        enum_shards=None,
    ):
        self.name = name
        self.check = check
        self.strategy = strategy
        self.enum = enum
        self.nontrivial = nontrivial or (lambda c: True)
        self.quick = quick
        self.thorough = thorough if thorough is not None else 4 * quick
        self.shards_thorough = shards_thorough
        self.rule = rule
        self.enum_shards = enum_shards  # callable(tier) -> int


# ---------------------------------------------------------------------------
# known findings


def load_known(prop):
    path = os.path.join(VERIF, "KNOWN_FINDINGS.json")
    if not os.path.exists(path):
        return []
    with open(path) as f:
        data = json.load(f)
    return [
        e
        for e in data.get("entries", [])
        if e.get("property") == prop and e.get("status") == "finding"
    ]


def _known_match(known, sub, sig):
    for e in known:
        if e.get("sub") in (None, "*", sub) and e.get("signature") == sig:
            return e
    return None


# ---------------------------------------------------------------------------
# exception classification


def _lib_frame(tb):
    """Innermost traceback frame that lives in the discretisedfield package."""
    found = None
    for fs in traceback.extract_tb(tb):
        fn = fs.filename.replace("\\", "/")
        if "/discretisedfield/" in fn and "/verif/" not in fn:
            found = fs
    return found


def classify_exception(exc):
    """Turn an unexpected exception into a Violation if the library raised it."""
    fs = _lib_frame(exc.__traceback__)
    if fs is None:
        return None
    return Violation(
        f"unexpected-{type(exc).__name__}@{fs.name}",
        f"{type(exc).__name__}: {exc} (at {os.path.basename(fs.filename)}:{fs.lineno})",
    )


_DIGEST_ERRORS = (IndexError, KeyError, AttributeError, TypeError, ValueError, ArithmeticError, AssertionError)


def _oracle_frame(tb):
    """Innermost frame inside a property module (the oracle code), if any."""
    found = None
    for fs in traceback.extract_tb(tb):
        fn = fs.filename.replace("\\", "/")
        if "/pbt/props/" in fn or fn.endswith("/pbt/aged.py") or "/pbt/ref/" in fn:
            found = fs
    return found


def classify_oracle_crash(exc):
    """The oracle itself tripped over what the library handed back (a result of the wrong shape, a file without the
    expected record, ...).  On the unchanged tree this never happens (it would be a harness bug either way); on a
    changed library it means the output is so malformed that the oracle cannot even read it - reported as a violation
    rather than as a harness error.  Environment problems (OSError, MemoryError without a library frame) stay errors."""
    if not isinstance(exc, _DIGEST_ERRORS) or isinstance(exc, OSError):
        return None
    fs = _oracle_frame(exc.__traceback__)
    if fs is None:
        return None
    return Violation(
        f"oracle-cannot-digest:{type(exc).__name__}@{fs.name}",
        f"the oracle failed on the library's output - {type(exc).__name__}: {str(exc)[:200]} "
        f"(at {os.path.basename(fs.filename)}:{fs.lineno})",
    )


def run_check(sub, case):
    """Run one check; returns None or a Violation.  Harness problems propagate."""
    try:
        sub.check(case)
    except Violation as v:
        return v
    except Reject:
        _TAGS["rejected-case"] += 1
        return None
    except (KeyboardInterrupt, SystemExit):
        raise
    except Exception as exc:  # noqa: BLE001 - MemoryError included: the workers run under an address-space limit
        v = classify_exception(exc) or classify_oracle_crash(exc)
        if v is None:
            raise
        return v
    return None


# ---------------------------------------------------------------------------
# running one sub-property shard (inside a worker process)


def _run_shard(modname, subname, tier, seed, shard, nshards, known, budget_s):
    import warnings

    warnings.simplefilter("ignore")
    _prepare_env()
    mod = importlib.import_module(modname)
    sub = {s.name: s for s in mod.SUBS}[subname]
    _TAGS.clear()
    t0 = time.time()
    res = {
        "sub": subname,
        "shard": shard,
        "evaluations": 0,
        "hashes": [],
        "samples": [],
        "failures": [],  # dicts: sig, msg, case
        "known_hits": {},
        "excluded_known": 0,
        "inconclusive": False,
        "exhaustive": False,
        "error": None,
    }
    hashes = set()
    samples = []

    def account(case):
        res["evaluations"] += 1
        try:
            nt = bool(sub.nontrivial(case))
        except Exception:  # noqa: BLE001
            nt = False
        if nt:
            h = case_hash(case)
            if h not in hashes:
                hashes.add(h)
                if len(samples) < 3 or (len(samples) < 6 and len(hashes) % 17 == 0):
                    samples.append(case)

    swallowed = set()  # signatures already recorded in this shard

    def handle(case, v):
        """Returns True if the violation must be raised to Hypothesis."""
        k = _known_match(known, subname, v.sig)
        if k is not None:
            res["known_hits"][v.sig] = res["known_hits"].get(v.sig, 0) + 1
            res["excluded_known"] += 1
            return False
        if v.sig in swallowed:
            return False
        return True

    try:
        if sub.enum is not None:
            it = sub.enum(tier)
            complete = True
            for i, case in enumerate(it):
                if i % nshards != shard:
                    continue
                if budget_s and time.time() - t0 > budget_s:
                    res["inconclusive"] = True
                    complete = False
                    break
                account(case)
                v = run_check(sub, case)
                if v is not None and handle(case, v):
                    swallowed.add(v.sig)
                    res["failures"].append(
                        {"sig": v.sig, "msg": v.msg, "case": json.loads(canon(case))}
                    )
            res["exhaustive"] = complete
        else:
            _run_hypothesis(sub, tier, seed, shard, account, handle, swallowed, res, t0, budget_s)
    except Exception as exc:  # noqa: BLE001
        res["error"] = "".join(traceback.format_exception(type(exc), exc, exc.__traceback__))[-4000:]
    res["evaluations"] += _EXTRA["evaluations"]
    _EXTRA["evaluations"] = 0
    res["hashes"] = sorted(hashes)
    res["samples"] = [json.loads(canon(s)) for s in samples]
    res["tags"] = dict(_TAGS)
    res["wall_s"] = time.time() - t0
    return res


def _run_hypothesis(sub, tier, seed, shard, account, handle, swallowed, res, t0, budget_s):
    import hypothesis
    from hypothesis import HealthCheck, Phase, given, settings

    n = sub.quick if tier == "quick" else sub.thorough
    shrink_budget = 150 if tier == "quick" else 600
    if FAILFAST:
        shrink_budget = 0

    for _attempt in range(1 if FAILFAST else 4):  # collect up to 4 distinct buckets per shard
        state = {"failing": {}, "last": None, "after_first": 0, "stop": False}

        def wrapper(case):
            if state["stop"]:
                return
            if budget_s and time.time() - t0 > budget_s and not state["failing"]:
                res["inconclusive"] = True
                state["stop"] = True
                return
            h = case_hash(case)
            if h in state["failing"]:
                state["last"] = (case, state["failing"][h])
                raise state["failing"][h]
            if state["failing"]:
                state["after_first"] += 1
                if state["after_first"] > shrink_budget:
                    return  # shrink budget exhausted: freeze current best
            else:
                account(case)
            v = run_check(sub, case)
            if v is not None and handle(case, v):
                state["failing"][h] = v
                state["last"] = (case, v)
                raise v

        test = given(sub.strategy)(wrapper)
        test = hypothesis.seed(seed * 1000 + shard * 7 + _attempt)(test)
        test = settings(
            max_examples=n,
            database=None,
            deadline=None,
            derandomize=False,
            report_multiple_bugs=False,
            suppress_health_check=list(HealthCheck),
            phases=[Phase.generate, Phase.shrink],
            print_blob=False,
        )(test)
        try:
            test()
        except Violation:
            case, v = state["last"]
            swallowed.add(v.sig)
            res["failures"].append({"sig": v.sig, "msg": v.msg, "case": json.loads(canon(case))})
            continue
        break


# ---------------------------------------------------------------------------


def _prepare_env():
    if REPO not in sys.path:
        sys.path.insert(0, REPO)
    if VERIF not in sys.path:
        sys.path.insert(0, VERIF)
    os.environ.setdefault("MPLBACKEND", "Agg")
    import discretisedfield

    here = os.path.realpath(os.path.dirname(discretisedfield.__file__))
    want = os.path.realpath(os.path.join(REPO, "discretisedfield"))
    if here != want:
        raise HarnessError(f"discretisedfield imported from {here}, expected {want}")


def _worker(args):
    return _run_shard(*args)


def _limit_memory():
    """address-space limit per worker (VERIF_MEM_GB, default 8): a defect that asks for an absurd amount of memory
    becomes a MemoryError inside the check (a violation with a library frame) instead of an out-of-memory kill"""
    try:
        import resource

        gb = float(os.environ.get("VERIF_MEM_GB", "8"))
        if gb > 0:
            lim = int(gb * 2**30)
            resource.setrlimit(resource.RLIMIT_AS, (lim, lim))
    except Exception:  # noqa: BLE001
        pass


def _child(conn, args):
    _limit_memory()
    try:
        conn.send(_run_shard(*args))
    finally:
        conn.close()


def _run_tasks(tasks, nproc):
    """One spawned process per shard, at most nproc at a time; yields results as they complete.  A worker that
    dies without reporting (abort or segfault inside a C extension) becomes a result with an error - the run ends
    as a harness error (exit 2) instead of hanging - and the other shards are unaffected."""
    import multiprocessing as mp
    from multiprocessing.connection import wait

    ctx = mp.get_context("spawn")
    pending = list(enumerate(tasks))
    running = {}  # conn -> (order, task, process)
    try:
        while pending or running:
            while pending and len(running) < nproc:
                order, t = pending.pop(0)
                parent, child = ctx.Pipe(duplex=False)
                pr = ctx.Process(target=_child, args=(child, t), daemon=True)
                pr.start()
                child.close()
                running[parent] = (order, t, pr)
            for conn in wait(list(running), timeout=5):
                order, t, pr = running.pop(conn)
                try:
                    r = conn.recv()
                except (EOFError, OSError):
                    pr.join(5)
                    r = {"sub": t[1], "shard": t[4], "evaluations": 0, "hashes": [], "samples": [], "failures": [],
                         "known_hits": {}, "excluded_known": 0, "inconclusive": True, "exhaustive": False, "tags": {}, "wall_s": 0.0,
                         "error": f"worker for sub-property {t[1]} shard {t[4]} died without a result "
                                  f"(exit code {pr.exitcode}): abort or crash inside a C extension"}
                conn.close()
                pr.join(5)
                r["_order"] = order
                yield r
    finally:
        for conn, (_, _, pr) in running.items():
            if pr.is_alive():
                pr.terminate()


def run_property(prop, tier, replay=None, only=None):
    t0 = time.time()
    seed = int(os.environ.get("VERIF_SEED", "1"))
    modname = f"pbt.props.{prop.lower()}"
    _prepare_env()
    mod = importlib.import_module(modname)
    subs = [s for s in mod.SUBS if only is None or s.name in only]
    known = load_known(prop)

    _limit_memory()  # the replay tier runs in this process
    if replay is not None:
        return _replay(prop, mod, replay)

    budget_s = float(os.environ.get("VERIF_BUDGET_S", "0")) or (
        900.0 if tier == "quick" else 3600.0
    )
    tasks = []
    for s in subs:
        if s.enum is not None:
            nsh = s.enum_shards(tier) if s.enum_shards else (1 if tier == "quick" else 8)
        else:
            nsh = 1 if tier == "quick" else s.shards_thorough
        for sh in range(nsh):
            tasks.append((modname, s.name, tier, seed, sh, nsh, known, budget_s))

    import multiprocessing as mp

    nproc = int(os.environ.get("VERIF_JOBS", "0")) or min(16, os.cpu_count() or 1)
    nproc = max(1, min(nproc, len(tasks)))
    if nproc == 1:
        results = [_worker(t) for t in tasks]
    else:
        if FAILFAST:
            # sensitivity runs (mutants): stop at the first violation or harness error, no evidence
            reg = _run_regressions(prop, mod, subs, known)
            for r in itertools.chain([reg], _run_tasks(tasks, nproc)):
                if r["failures"] or r["error"]:
                    if r["failures"]:
                        f = r["failures"][0]
                        print(f"VIOLATION property={prop} replay=- sub={r['sub']} signature={f['sig']} :: "
                              f"{str(f['msg'])[:200]} (failfast)")
                        return 1
                    print("HARNESS ERROR", r["error"][-1500:])
                    return 2
            print(f"{prop} {tier}: no violation (failfast)")
            return 0
        results = sorted(_run_tasks(tasks, nproc), key=lambda r: r["_order"])

    results.insert(0, _run_regressions(prop, mod, subs, known))
    return _finish(prop, tier, seed, mod, subs, known, results, t0)


def _run_regressions(prop, mod, subs, known):
    """Replay tier: saved (shrunk) cases of earlier findings, run as plain checks."""
    t0 = time.time()
    res = {"sub": "regressions", "shard": 0, "evaluations": 0, "hashes": [], "samples": [], "failures": [],
           "known_hits": {}, "excluded_known": 0, "inconclusive": False, "exhaustive": None, "error": None,
           "tags": {}}
    rdir = os.path.join(VERIF, "regressions", prop)
    byname = {s.name: s for s in mod.SUBS}
    hashes = set()
    try:
        for fn in sorted(os.listdir(rdir)) if os.path.isdir(rdir) else []:
            if not fn.endswith(".json"):
                continue
            with open(os.path.join(rdir, fn)) as fh:
                data = json.load(fh)
            sub = byname.get(data["sub"])
            if sub is None:
                continue
            res["evaluations"] += 1
            hashes.add(case_hash(data["case"]))
            v = run_check(sub, data["case"])
            if v is not None:
                if _known_match(known, sub.name, v.sig):
                    res["known_hits"][v.sig] = res["known_hits"].get(v.sig, 0) + 1
                    continue
                res["failures"].append({"sig": v.sig, "msg": f"[regression {fn}] " + v.msg, "case": data["case"],
                                        "sub": sub.name})
    except Exception as exc:  # noqa: BLE001
        res["error"] = "".join(traceback.format_exception(type(exc), exc, exc.__traceback__))[-4000:]
    res["hashes"] = sorted(hashes)
    res["wall_s"] = time.time() - t0
    return res


def _finish(prop, tier, seed, mod, subs, known, results, t0):
    errors = [r for r in results if r["error"]]
    per_sub = {}
    hashes = set()
    samples = []
    tags = collections.Counter()
    failures = {}
    known_hits = collections.Counter()
    evaluations = 0
    excluded = 0
    for r in results:
        d = per_sub.setdefault(
            r["sub"],
            {"evaluations": 0, "distinct_nontrivial": 0, "violations": 0, "shards": 0,
             "inconclusive": False, "exhaustive": None, "wall_s": 0.0, "_h": set()},
        )
        d["evaluations"] += r["evaluations"]
        d["_h"].update(r["hashes"])
        d["shards"] += 1
        d["inconclusive"] = d["inconclusive"] or r["inconclusive"]
        if r["exhaustive"] is not None:
            d["exhaustive"] = r["exhaustive"] if d["exhaustive"] is None else (d["exhaustive"] and r["exhaustive"])
        d["wall_s"] = round(d["wall_s"] + r["wall_s"], 2)
        evaluations += r["evaluations"]
        excluded += r["excluded_known"]
        hashes.update(r["sub"] + ":" + h for h in r["hashes"])
        for s in r["samples"][:2]:
            samples.append({"sub": r["sub"], "case": s})
        tags.update({f"{r['sub']}:{k}": v for k, v in r.get("tags", {}).items()})
        for k, v in r["known_hits"].items():
            known_hits[k] += v
        for f in r["failures"]:
            failures.setdefault((f.get("sub", r["sub"]), f["sig"]), f)
    for name, d in per_sub.items():
        d["distinct_nontrivial"] = len(d.pop("_h"))
        sub = {s.name: s for s in subs}.get(name)
        if sub is None:
            d["rule"] = "saved shrunk cases of earlier findings, replayed as plain checks"
            continue
        if sub.enum is None:
            d["exhaustive"] = False
        d["rule"] = sub.rule

    # replay files
    viol_lines = []
    rdir = os.path.join(OUT, "replays", prop)
    for (subname, sig), f in sorted(failures.items()):
        os.makedirs(rdir, exist_ok=True)
        h = hashlib.sha1((subname + sig).encode()).hexdigest()[:10]
        path = os.path.join(rdir, f"{subname}-{h}.json")
        with open(path, "w") as fh:
            json.dump(
                {"property": prop, "sub": subname, "signature": sig, "message": f["msg"],
                 "case": f["case"]},
                fh, indent=1, sort_keys=True,
            )
        if subname in per_sub:
            per_sub[subname]["violations"] += 1
        viol_lines.append((subname, sig, f["msg"], os.path.relpath(path, OUT)))

    for e in known:
        hits = known_hits.get(e["signature"], 0)
        print(f"KNOWN-FINDING: property={prop} {e['what']} (reproduced {hits}x in this run)")

    rule = getattr(mod, "RULE", "")
    evidence = {
        "property_id": prop,
        "tier": tier,
        "seed": seed,
        "level": getattr(mod, "LEVEL", "exploration"),
        "coverage": {
            "evaluations": evaluations,
            "distinct_nontrivial": len(hashes),
            "rule": rule,
            "samples": samples[:40],
            "exhaustive": bool(getattr(mod, "EXHAUSTIVE", False))
            and all(d["exhaustive"] for d in per_sub.values() if d["exhaustive"] is not None),
            "exhaustive_subs": sorted(n for n, d in per_sub.items() if d["exhaustive"]),
            "sub_properties": per_sub,
            "class_histogram": dict(sorted(tags.items())),
            "excluded_by_known_finding": excluded,
            "known_finding_hits": dict(known_hits),
            "inconclusive_subs": sorted(n for n, d in per_sub.items() if d["inconclusive"]),
        },
        "assumptions": list(getattr(mod, "ASSUMPTIONS", [])),
        "wall_s": round(time.time() - t0, 2),
        "violations": len(viol_lines),
    }
    os.makedirs(os.path.join(OUT, "evidence"), exist_ok=True)
    with open(os.path.join(OUT, "evidence", f"{prop}.json"), "w") as fh:
        json.dump(evidence, fh, indent=1, sort_keys=True, default=_json_default)

    if errors:
        seen = set()
        for r in errors:
            tail = r["error"][-1500:]
            if tail in seen:
                tail = "(same traceback as above)"
            seen.add(tail)
            print(f"HARNESS-ERROR property={prop} sub={r['sub']} shard={r['shard']}\n{tail}",
                  file=sys.stderr)
        return 2
    for subname, sig, msg, path in viol_lines:
        print(f"VIOLATION property={prop} replay={path} sub={subname} signature={sig} :: {msg[:300]}")
    print(
        f"{prop} {tier}: {evaluations} cases, {len(hashes)} distinct non-trivial, "
        f"{len(viol_lines)} violation bucket(s), {round(time.time() - t0, 1)} s"
    )
    return 1 if viol_lines else 0


def _replay(prop, mod, path):
    with open(path) as fh:
        data = json.load(fh)
    sub = {s.name: s for s in mod.SUBS}[data["sub"]]
    v = run_check(sub, data["case"])
    if v is None:
        print(f"replay {path}: property holds for this case")
        return 0
    print(f"VIOLATION property={prop} replay={path} sub={sub.name} signature={v.sig} :: {v.msg[:400]}")
    return 1


def main(argv=None):
    argv = list(sys.argv[1:] if argv is None else argv)
    if not argv:
        print("usage: run.py <Cxx> [quick|thorough] [--replay file] [--only sub,sub]")
        return 2
    prop = argv[0].upper()
    tier = os.environ.get("VERIF_TIER", "quick")
    replay = None
    only = None
    i = 1
    while i < len(argv):
        a = argv[i]
        if a in ("quick", "thorough"):
            tier = a
        elif a == "--replay":
            i += 1
            replay = argv[i]
        elif a == "--only":
            i += 1
            only = set(argv[i].split(","))
        i += 1
    try:
        return run_property(prop, tier, replay=replay, only=only)
    except Exception:  # noqa: BLE001
        traceback.print_exc()
        return 2

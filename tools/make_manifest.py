#!/usr/bin/env python3
"""Regenerate MANIFEST.json from the table below (keeps it schema-valid at all times)."""
import json
import os

VERIF = os.path.dirname(os.path.dirname(os.path.abspath(__file__)))

# property -> (technique, level text, level note, design section)
CHECKS = {}


def add(pid, technique, text, note, category="exploration"):
    CHECKS[pid] = dict(technique=technique, text=text, note=note, category=category)


add("C01",
    "Hypothesis-generated regions/meshes/probes against an exact rational lattice model, plus "
    "complete enumeration of small cell-count grids",
    "Generated-input search: every cell index of every generated mesh is round-tripped and every probe "
    "(centre, face, interior, outside) is compared with an exact Fraction model of the lattice; accept/"
    "reject of cell sizes, points and indices is checked both ways. Exploration (sampled), complete only "
    "for the enumerated n<=4(6) grids.",
    "Trusts the Fraction lattice model and the stated FP/region tolerances; face probes use a set-valued "
    "oracle (either neighbour).")

add("C02",
    "Hypothesis-generated value specifications against a reference evaluator at exact cell centres; "
    "sampling/line/iteration compared with the stored array (set-valued on faces)",
    "Generated-input search over meshes x subregions x nvdim x dtype x specification kind x construction path; "
    "the oracle evaluates the specification itself at the exact cell centres (first-listed subregion wins, then "
    "default; field sources set-valued on ties); rejected specifications must leave the array byte-identical.",
    "Trusts the reference evaluator and the exact lattice; callables are smooth polynomials compared at rtol 1e-12; "
    "dtype of field-source results and dimension name 'r' in Field.line are not asserted (DESIGN section 6).")

add("C03",
    "Hypothesis recursive strategy of expression trees, evaluated on Field objects and on raw numpy arrays "
    "(differential oracle); operand snapshots; a*b vs b*a metadata",
    "Generated-input search over typed expression trees (depth <= 3, both operand orders, numbers/vectors/arrays/"
    "numpy scalars, int/float/complex, masks, custom labels, permuted mappings); the result must be a Field on the "
    "same mesh whose array equals the numpy evaluation (rtol 1e-12), every operand must be byte-identical afterwards, "
    "commutative forms must agree in labels and mapping, and mismatching meshes / component counts must raise.",
    "Trusts numpy broadcasting as the reference; ufunc / numpy-scalar-left results are checked for values only; "
    "stacked components are compared by array, validity and default labels (scalar components carry no label).")

add("C04",
    "complete enumeration of all validity patterns up to L=10 (12) x order x open/periodic with property-text "
    "oracles (monomial exactness per run, linearity, locality, ring shifts); Hypothesis embeddings in n-d meshes",
    "Every one of the 2^L validity patterns for L<=10 (quick) / 12 (thorough), both orders, open and periodic, is "
    "decided completely for the monomial basis, and extended to all real data by the linearity and locality checks "
    "on random data; n-d meshes are reduced to this by checking that each grid line and component equals the 1-d "
    "result. Exhaustive for the enumerated bound, sampled beyond it.",
    "No reference stencil is assumed; exactness tolerance 1e-9*max|v|/h^order; cell sizes 0.3 and 2^-7 in the "
    "enumeration, arbitrary in the embeddings.", category="exploration")

add("C05",
    "Hypothesis-generated polynomial/random fields with permuted mappings and renamed axes; three oracles: combination "
    "of Field.diff through an independently inverted mapping, analytic derivatives, vector identities and commutation "
    "with rotate90",
    "Generated-input search; the first clause (textbook combination, pairing by mapping) is checked for every mask and "
    "bc by recomputing each operator from Field.diff of the component the harness itself maps to each axis; exactness "
    "on degree<=2 polynomials analytically; curl grad = 0, div curl = 0 and commutation with quarter turns on fully "
    "valid meshes; refusals must raise.",
    "Relies on C04 for Field.diff and C12 for rotate90; mappings with duplicate targets are not generated.")

add("C06",
    "Hypothesis-generated fields and direction sets; independent numpy sums as oracle; Fubini, cumulative/total "
    "relation, linearity and translation invariance as metamorphic relations",
    "Generated-input search over fields x meshes x directions x orders of integration x cumulative x mean direction "
    "sets; integer-valued data make the reference sums exact, so rtol 1e-12 suffices; result meshes are checked to "
    "be the source mesh with exactly the integrated axes removed.",
    "numpy sum/cumsum/mean as the reference; translations of a few cells (far translations change the cell size by "
    "rounding).")

add("C07",
    "Hypothesis-generated selections built from the lattice (centres, faces, interior points, aligned/arbitrary boxes, "
    "pad widths/modes, target resolutions) against a point-wise 'same value and validity at the same position' oracle "
    "with an exact lattice model",
    "Generated-input search; every cell of every result is compared with the source cell that an exact rational model "
    "places at that position (either neighbour for a coordinate on a face, both for value and validity), result shapes "
    "and corners follow index arithmetic, padding follows a 15-line index model, out-of-region requests must raise.",
    "Exact lattice model trusted; meshes with subregions at scales 1e-9..1; cell values are unique in component 0 so a "
    "misplaced cell always shows.")

add("C08",
    "Hypothesis-generated operation programs against a Boolean mask model; mask image under cell-mapping operations read "
    "from a companion field whose data encode the mask; in-place flip of the result mask as ownership probe",
    "Generated-input search over programs of 1-4 unary / binary / cell-mapping operations (incl. HDF5 and VTK round "
    "trips) on masked fields: after every step the result's validity must be a Boolean array of the mesh shape equal "
    "to the model (same / AND / image of the mask under the operation's own data map), operands' masks must be byte-"
    "identical, and flipping the result's mask in place must not reach an operand. Setter forms are compared with a model.",
    "The data transformation of cell-mapping operations is taken from C07/C12; selections use interior coordinates "
    "(no face ties); 'norm' threshold probed a decade away from 1e-8.")

add("C09",
    "Hypothesis-generated fields and foreign files with an independent OVF reader/writer; exhaustive enumeration of "
    "every truncation point and every single-bit corruption of the check value of small binary files",
    "Round trip, an independent OVF 2.0 decoder on the written bytes, and files from an independent OVF 1.0/2.0 writer "
    "are explored by generated-input search; the fault clause is decided by complete enumeration for the generated "
    "files: every prefix of the file and every single-bit flip / replacement of the check value must be rejected or "
    "(prefixes that contain the whole data block) read to the original field.",
    "pbt/ref/ovf_ref.py (written from the OVF specification) is trusted; units/labels without whitespace; text "
    "truncation is not asserted (the property names binary files).", category="fault_enumeration")

add("C10",
    "Hypothesis-generated fields over every metadata and corner-typing combination; attribute-by-attribute comparison "
    "after from_file, an h5py view of the file, and legacy-layout files from an independent writer",
    "Generated-input search over 1-4-d meshes x names x units x tolerance factor x bc x 0-3 subregions x int/float/"
    "fractional corner typing x nvdim x labels (custom/default/absent) x unit/None x float/complex/int x masks; every "
    "attribute the property lists is compared individually (array_equal for corners and values), subregions incl. "
    "their inherited names/units/tolerance; legacy files must load to the writer's content.",
    "int data may come back as float64 (equal values); mapping is not stored; legacy layout reproduced from the "
    "pre-0.90 writer.")

add("C11",
    "Hypothesis-generated fields plus complete enumeration of all small shapes; oracle = direct evaluation of the DFT "
    "definition at the k-cell centres reported by the returned mesh and the textbook frequency formula",
    "Generated-input search over real/complex fields, every parity mix and single-cell axes, anisotropic cells, "
    "offsets, names, labels and mappings for all four transforms; all shapes with prod(n) <= 36 (64 thorough) are "
    "enumerated completely. Values are compared with the definition sum f[r] exp(-2 pi i k.r) evaluated independently; "
    "inverses, half-spectrum, DC cell, linearity, per-component action, position independence and renaming are checked.",
    "tolerance 1e-10*N*max|f|; reference uses only numpy exp/tensordot (no FFT routines).")

add("C12",
    "Hypothesis-generated fields; per field complete enumeration of all ordered axis pairs x k in -8..8; exact affine "
    "model (Fractions) for corners, independent index map for cells, exact integer matrix for mapped components, "
    "point-wise sampling",
    "For every generated field (2-4 d, anisotropic, permuted/partial mappings, int/float, masks, subregions, distinct "
    "units, default/arbitrary/far reference) every (pair, k) combination is rotated with the copying form and compared "
    "with the model; k vs k mod 4, turn+reverse, region/mesh/field consistency, copy purity, and for drawn combinations "
    "the in-place form (returns self, equals the copy incl. units and subregions); unmapped vector fields must be "
    "refused without modification.",
    "coordinates at 64 eps of the largest magnitude involved; values at rtol 1e-12, exactly for integer dtypes; far "
    "reference points only without subregions (absolute alignment tolerance).")

add("C13",
    "model-based history testing: Hypothesis-generated step lists (valid and malformed translate/scale/rotate90, in "
    "place or copying) interpreted on Region+Mesh+Field with twins; exact affine image of the pre-state per step; "
    "invariants after every step",
    "Histories of up to 8 (12) steps are generated and shrunk as one value; each object has a twin advanced with the "
    "opposite form. After every step: geometric invariants (pmin<pmax, names, integer n, cell*n=edges, subregions on the "
    "lattice with the mesh's names/units, array/valid shapes), the step's exact affine map applied to the object's own "
    "pre-state (Fractions, 64 eps), in-place returns self, object == twin, copying leaves the source bit-identical; "
    "malformed or degenerate steps must raise in both forms and leave the object bit-identical.",
    "growth budget keeps coordinates within +-100 initial cells (absolute 1e-12 alignment tolerance); histories are "
    "data interpreted by the check (equivalent to a rule-based state machine, but replayable as JSON).")

add("C14",
    "Hypothesis-generated candidate boxes with stated defects; model-based histories (assign, transform, select, "
    "extract, JSON/HDF5 reload) with an index-space model and the invariant after every step; constructed alignment truth",
    "Generated-input search: valid boxes must be accepted and carry the mesh's names/units, boxes shifted/stretched by "
    "a fraction of a cell or leaving the region must be rejected with the previous subregions kept; histories of up to "
    "6 steps check after every step that every held subregion is an integer index box inside [0, n] with the mesh's "
    "metadata, that plane/range selections keep exactly the overlapping subregions clipped to the kept cells, that "
    "mesh[name] has exactly the subregion as region and the parent's cell, and that JSON/HDF5 reload returns names in "
    "order and identical corners; is_aligned is compared with the constructed truth in both argument orders.",
    "scales 1e-9..1, bounded coordinates (absolute 1e-12 alignment tolerance); defects are at least 5% of a cell.")

add("C15",
    "Hypothesis-generated vector fields over 156 decades of length with exact zeros; per-cell length/direction "
    "reference; read-write-read sequences on field.array",
    "Generated-input search over nvdim x mesh x magnitudes 1e-6..1e150 x zero patterns x norm specification kinds x "
    "constructor/setter; after setting the norm every previously non-zero cell must have the target length (rtol 1e-12) "
    "and the same direction, zero cells stay exactly zero; norm getter metadata, orientation unit length / zero, "
    "orientation*norm = field; a later value update (also an in-place write after the norm was read) must not be "
    "affected by an earlier norm.",
    "lengths keep a decade from the 1e-8 threshold; numpy.linalg.norm as length reference.")

add("C16",
    "Hypothesis-generated 3-d fields; VTK's own FindCell (on the in-memory grid and on the file read by VTK's own "
    "reader) as independent consumer; round trip; legacy files from an independent writer",
    "Generated-input search over nvdim x labels x anisotropic meshes x masks x subregions x dtype x {bin, bin8, txt, "
    "xml}: for probe points of every kind the VTK cell located by FindCell must carry, in every array (field, each "
    "component, norm, valid), the value of the mesh cell an exact lattice model places there; grid coordinates = mesh "
    "vertices; Field.from_file round trip (exact for bin/xml, 1e-9 for txt) incl. labels and side-car subregions; "
    "old-style point-data files must load with one value per cell in the right cell.",
    "VTK library as the independent reader/locator; component 0 holds a unique value per cell so a misplaced cell shows.")

add("C17",
    "Hypothesis-generated fields and DataArray attribute sets (complete / each removed / all geometry removed); exact "
    "lattice for coordinates; rebuild-from-coordinates model; broken inputs must raise",
    "Generated-input search: exported coordinates must be the exact cell centres with the region's units (incl. empty "
    "units), vdims coordinate = labels, attrs = cell/corners/nvdim/unit/tolerance; import of the export must give an "
    "equal field with the same labels, dtype, names, units and tolerance; with geometric attributes removed the mesh is "
    "rebuilt half a cell beyond the outermost centres; uneven coordinates (at every scale and under every attribute set), "
    "missing/non-int nvdim, missing vdims axis and non-DataArray input must be rejected.",
    "field unit not restored on import (not claimed); attribute-free import only with >= 2 cells per direction.")

add("C18",
    "model-based histories of rotate()/clear_rotation() on a FieldRotator with an independently built accumulated "
    "rotation matrix; closed-form answers for uniform and linear fields; differential check against one rotator given "
    "the product and against Field.rotate90",
    "Histories of 1-4 rotations in five parametrisations (quaternion, matrix, rotation vector, Euler angles intrinsic/"
    "extrinsic, vector alignment) with default or explicit n: after every step the region must be the bounding box of "
    "the rotated region about the same centre, cells >= 1 cell inside must carry Q v (uniform, with the component "
    "permutation) or the linear scalar's value, cells outside carry exactly 0, the result must equal a fresh rotator "
    "given the accumulated matrix, clearing restores the original; quarter turns on cubic cells equal rotate90; "
    "unsupported fields are refused.",
    "rotation matrices built with Rodrigues / elementary rotations (no scipy); the half-cell boundary band is not asserted.")

add("C19",
    "Hypothesis-generated textures, hedgehogs, random fields and cuboids; metamorphic relations (invariances, sign "
    "reversal), integrality on compact textures, real-space trace and demagnetising-factor sum rules, differential "
    "check of the two tensor implementations",
    "Generated-input search: both charge methods under vector rotation, length rescaling, mesh rescaling/translation, "
    "sample quarter turn, reversal, masks, uniform fields; Berg-Luescher integer (= -Q) on resolved compact textures; "
    "hedgehog counted as exactly one Bloch point with the right polarity along x, y, z on anisotropic cells with and "
    "without a spherical sample; neighbouring-cell angles against arccos of unit vectors and the shifted mesh; demag "
    "tensor trace -delta in real space and |trace(k)| = 1, implementation agreement, factor sum -1 (cube: -1/3).",
    "resolution requirements calibrated (>= 8|Q| cells across, >= 3 cells margin); max_neighbouring_cell_angle is not "
    "part of the property and not asserted.")

add("C20",
    "Hypothesis-generated 2-d fields x plot kind x multiplier x auxiliary fields; oracle = inspection of the matplotlib "
    "artists plus a pixel-lookup consumer",
    "Generated-input search: AxesImage array/origin/extent and the pixel that the extent assigns to each cell centre, "
    "Quiver positions, in-plane components (through the mapping or explicit vdims), hidden arrows and colour array, "
    "ContourSet vertices of linear fields, rgba alpha of lightness plots, axis labels with prefixed units; cells that "
    "are invalid or zero in a (possibly differently resolved) filter field must be hidden; field array, validity and "
    "mesh must be byte-identical after plotting; unsupported dimensions must be refused.",
    "Agg backend, public artist API; auxiliary-field ties on faces admit either neighbour; HLS colour values of "
    "lightness plots are not decoded (only geometry, hidden cells and purity).")

PENDING = {}


AGED_TEXT = (" Objects with a history are covered by the sub-property `aged`: a generated script of reads (cache "
             "warm-up) and in-place writes through the public API is applied to a field (or to an object derived from "
             "it), a fresh field is built from the resulting public state, and every observable this property speaks "
             "about must agree between the two; sampled, not exhaustive.")


def main():
    props = [json.loads(l) for l in open(os.path.join(VERIF, "properties.jsonl"))]
    checks = []
    na = []
    for p in props:
        pid = p["id"]
        if pid in CHECKS and os.path.exists(os.path.join(VERIF, "pbt", "props", pid.lower() + ".py")):
            c = CHECKS[pid]
            checks.append({
                "property_id": pid,
                "quick_cmd": f"/venv/bin/python pbt/run.py {pid} quick",
                "thorough_cmd": f"/venv/bin/python pbt/run.py {pid} thorough",
                "evidence_file": f"evidence/{pid}.json",
                "replay_cmd_template": f"/venv/bin/python pbt/run.py {pid} --replay {{path}}",
                "engine": "pbt",
                "level_claimed": {"category": c["category"], "text": c["text"] + AGED_TEXT,
                                  "design_ref": f"DESIGN.md section 4, {pid} and sub-property `aged`"},
                "level_note": c["note"] + " The aged sub-property assumes that results are a function of the public "
                                          "primary state (corners, n, names, units, bc, subregions, array, validity, "
                                          "labels, mapping, unit).",
                "technique": c["technique"] + "; plus a differential 'aged == fresh' sub-property over generated scripts "
                                              "of reads and in-place writes (model-based histories, shrinkable JSON cases)",
            })
        else:
            na.append({"property_id": pid,
                       "reason": PENDING.get(pid, "check not built yet in this session (the technique applies; "
                                                  "see DESIGN.md section 4) - not claimed until its module exists")})
    manifest = {
        "version": 1,
        "setup_cmd": "(/venv/bin/python -c 'import hypothesis' 2>/dev/null || /venv/bin/pip install --no-index "
                     "--find-links /opt/veriftools/wheels hypothesis) && (test -d .deps/atheris || /venv/bin/pip install -q "
                     "--no-index --find-links /opt/veriftools/wheels --target .deps atheris || true)",
        "hooks": {
            "guard": "UBERMAG_DISCRETISEDFIELD_VERIF",
            "enable": "no hooks are needed: every observation point is public API or a public file; checks "
                      "import /repo's working tree directly (editable install, asserted by the runner)",
            "baseline_off_cmd": "cd /repo && /venv/bin/python -m pytest -ra -q -p no:cacheprovider --timeout=900 "
                                "--continue-on-collection-errors",
            "source_commits": [],
            "add_only": True,
        },
        "engines": [{
            "name": "pbt",
            "path": "pbt/run.py",
            "serves_properties": [c["property_id"] for c in checks],
            "kind_free_text": "Hypothesis property-based testing + exhaustive enumeration of small finite "
                              "sub-domains; cases are JSON data, shrunk failures become replay files",
        }],
        "checks": checks,
        "not_applicable": na,
        "notes": "Exit 0 held / 1 VIOLATION / 2 harness error. KNOWN_FINDINGS.json lists findings and fixed "
                 "defects. VERIF_SEED selects the Hypothesis seed; VERIF_JOBS the worker count.",
    }
    with open(os.path.join(VERIF, "MANIFEST.json"), "w") as f:
        json.dump(manifest, f, indent=1)
    print(f"{len(checks)} checks, {len(na)} not claimed")


if __name__ == "__main__":
    main()

#!/venv/bin/python
"""Confirm a seeded change produced by an independent sub-agent and import it.

usage: confirm_seeded.py <src_dir with patch.diff demo.py notes.md> <name e.g. C02-1> <property> [--no-suite]

In a scratch copy of /repo's working tree (outside /repo and /verif): demo must exit 0 unpatched,
non-zero patched, and the repository's test suite must still pass with the patch.  On success the
files are stored as /verif/seeded/<name>/ with meta.json.  The scratch copy is removed.
"""
import json
import os
import re
import shutil
import subprocess
import sys
import tempfile
import time

VERIF = os.path.dirname(os.path.dirname(os.path.abspath(__file__)))
ALWAYS_FAIL = {"test_pyvista_streamlines"}


def sh(cmd, cwd, env=None, timeout=1800):
    e = dict(os.environ)
    e.update(env or {})
    return subprocess.run(cmd, cwd=cwd, env=e, capture_output=True, text=True, timeout=timeout)


def main():
    src, name, prop = sys.argv[1:4]
    suite = "--no-suite" not in sys.argv
    tmp = tempfile.mkdtemp(prefix="verif-seed-")
    meta = {"property": prop, "source": "independent sub-agent given only the property text and a scratch worktree",
            "confirmed_at": time.strftime("%Y-%m-%d %H:%M:%S")}
    try:
        sh(["rsync", "-a", "--exclude", ".git", "/repo/", tmp + "/"], "/")
        env = {"PYTHONPATH": tmp, "PATH": "/venv/bin:" + os.environ["PATH"], "MPLBACKEND": "Agg"}
        shutil.copy(os.path.join(src, "demo.py"), os.path.join(tmp, "demo_seeded.py"))
        r0 = sh(["/venv/bin/python", "demo_seeded.py"], tmp, env)
        meta["demo_unpatched_exit"] = r0.returncode
        ap = sh(["patch", "-p1", "--no-backup-if-mismatch", "-i", os.path.join(src, "patch.diff")], tmp)
        meta["patch_applies"] = ap.returncode == 0
        if ap.returncode != 0:
            print("PATCH DOES NOT APPLY", ap.stdout[-500:], ap.stderr[-500:])
            return 1
        r1 = sh(["/venv/bin/python", "demo_seeded.py"], tmp, env)
        meta["demo_patched_exit"] = r1.returncode
        meta["demo_patched_tail"] = (r1.stdout + r1.stderr)[-400:]
        ok = r0.returncode == 0 and r1.returncode != 0
        if suite and ok:
            rs = sh(["/venv/bin/python", "-m", "pytest", "-q", "-p", "no:cacheprovider", "--timeout=900", "-x", "-q", "--basetemp", tmp + "/.pytest_tmp",
                     "--deselect", "discretisedfield/tests/test_field.py::test_pyvista_streamlines"], tmp, env, 3600)
            tail = rs.stdout.strip().splitlines()[-1] if rs.stdout.strip() else ""
            meta["suite_with_patch"] = tail
            failed = re.findall(r"(\d+) failed", tail)
            ok = ok and rs.returncode == 0 and not failed
        meta["ran"] = ["demo.py on unpatched copy of /repo working tree (expect exit 0)",
                       "patch -p1 < patch.diff; demo.py (expect non-zero)",
                       "pytest -q --timeout=900 (whole suite, minus always-failing test_pyvista_streamlines) with the patch"]
        print(json.dumps(meta, indent=1))
        if not ok:
            print("NOT CONFIRMED")
            return 1
        dst = os.path.join(VERIF, "seeded", name)
        os.makedirs(dst, exist_ok=True)
        for fn in ("patch.diff", "demo.py", "notes.md"):
            if os.path.exists(os.path.join(src, fn)):
                shutil.copy(os.path.join(src, fn), os.path.join(dst, fn))
        notes = open(os.path.join(src, "notes.md")).read() if os.path.exists(os.path.join(src, "notes.md")) else ""
        meta["needs_to_manifest"] = "see notes.md"
        meta["notes_head"] = notes[:600]
        old = {}
        if os.path.exists(os.path.join(dst, "meta.json")):
            old = json.load(open(os.path.join(dst, "meta.json")))
        old.update(meta)
        json.dump(old, open(os.path.join(dst, "meta.json"), "w"), indent=1)
        print("CONFIRMED ->", dst)
        return 0
    finally:
        shutil.rmtree(tmp, ignore_errors=True)


if __name__ == "__main__":
    sys.exit(main())

#!/venv/bin/python
"""Regenerate the 'which check catches which seeded change' table in DESIGN.md (between the markers)
from seeded/*/meta.json and mutants/RESULTS.json."""
import json
import os
import re

V = os.path.dirname(os.path.dirname(os.path.abspath(__file__)))
res = {r["id"]: r for r in json.load(open(os.path.join(V, "mutants", "RESULTS.json")))}
rows = ["| change | what it is (first line of its notes) | status | caught by (sub-property :: signature) |", "|---|---|---|---|"]
for n in sorted(os.listdir(os.path.join(V, "seeded"))):
    mp = os.path.join(V, "seeded", n, "meta.json")
    if not os.path.exists(mp):
        continue
    m = json.load(open(mp))
    head = (m.get("notes_head") or "").strip().splitlines()[0] if m.get("notes_head") else ""
    head = re.sub(r"^#+\s*(Change\s*\w+\s*[-:–]*\s*)?", "", head).replace("|", "/")[:150]
    r = res.get("seeded/" + n, {})
    if m.get("neutralised"):
        rows.append(f"| {n} | {head} | neutralised by a later fix (see meta.json) | - |")
        continue
    by = []
    for p, o in (r.get("results") or {}).items():
        for v in o.get("violations", [])[:2]:
            mm = re.search(r"sub=(\S+) signature=(.*?)(?: ::|$)", v)
            if mm:
                by.append(f"{p} {mm.group(1)} :: {mm.group(2)[:60]}")
    rows.append(f"| {n} | {head} | {r.get('status', 'not run')} | {'; '.join(by).replace('|', '/')} |")
txt = "\n".join(rows)
p = os.path.join(V, "DESIGN.md")
s = open(p).read()
a, b = "<!-- seeded-table:begin -->", "<!-- seeded-table:end -->"
if a in s:
    s = s[: s.index(a) + len(a)] + "\n" + txt + "\n" + s[s.index(b):]
    open(p, "w").write(s)
else:
    print(txt)

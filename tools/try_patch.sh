#!/bin/bash
# usage: tools/try_patch.sh <patch.diff> <Cxx> [run.py args...]   - run a check against a patched scratch copy of /repo
patch=$1; prop=$2; shift 2
tmp=$(mktemp -d /tmp/verif-try-XXXXXX)
rsync -a --exclude .git --exclude docs --exclude dev /repo/ $tmp/
( cd $tmp && patch -p1 -s < $patch ) || { echo "patch failed"; rm -rf $tmp; exit 2; }
VERIF_REPO=$tmp VERIF_OUT=$tmp/out PYTHONPATH=$tmp /venv/bin/python /verif/pbt/run.py $prop quick "$@" 2>&1 | grep -v "WARNING conda" | cut -c1-400
rc=${PIPESTATUS[0]}
rm -rf $tmp
exit $rc

#!/bin/bash
# usage: tools/run_all.sh [quick|thorough] [seed ...]   -> one line per (property, seed)
cd "$(dirname "$0")/.."
tier=${1:-quick}; shift
seeds=${@:-1}
for s in $seeds; do
  for i in 01 02 03 04 05 06 07 08 09 10 11 12 13 14 15 16 17 18 19 20; do
    out=$(VERIF_SEED=$s /venv/bin/python pbt/run.py C$i $tier 2>&1); rc=$?
    echo "seed=$s C$i rc=$rc $(echo "$out" | tail -1)"
    if [ $rc -ne 0 ]; then echo "$out" | grep -E "VIOLATION|HARNESS|Error" | head -5; fi
  done
done

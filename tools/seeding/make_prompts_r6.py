import json,sys,subprocess,os
rnd=sys.argv[1]; ids=sys.argv[2:]
props={json.loads(l)['id']:json.loads(l) for l in open('/verif/properties.jsonl')}
for pid in ids:
    p=props[pid]
    wt=f'/tmp/seed/{pid}-{rnd}'
    if not os.path.exists(wt):
        subprocess.run(['git','-C','/repo','worktree','add','--detach',wt,'HEAD'],check=True,capture_output=True)
    out=f'/tmp/seed/out/{pid}-{rnd}'; os.makedirs(out+'/a',exist_ok=True); os.makedirs(out+'/b',exist_ok=True)
    import glob
    done=[]
    for mf in sorted(glob.glob(f'/verif/seeded/{pid}-*/meta.json')):
        nh=json.load(open(mf)).get('notes_head','').strip().split('\n')[0].lstrip('# ').strip()
        if nh: done.append('     - '+nh[:160])
    done='\n'.join(done)
    mech='\n'.join(f"  - {m['name']}  ({m['where']})" for m in p['anchors'].get('mechanism',[]))
    txt=f"""# Task: seed two realistic defects that break one semantic property of `discretisedfield`

You are helping to evaluate a verification harness.  You work ONLY inside your own scratch git worktree
of the library: `{wt}` (a checkout of ubermag/discretisedfield, Python/NumPy; regions, finite-difference
meshes, fields).  Do not touch `/repo`, `/verif` or any other directory (do not read /verif at all).  Write your results to `{out}/a/` and `{out}/b/`.

Run Python as `/venv/bin/python` with `PYTHONPATH={wt}` (important: /venv has an editable install pointing
elsewhere; PYTHONPATH makes `import discretisedfield` use YOUR worktree — verify with
`PYTHONPATH={wt} /venv/bin/python -c "import discretisedfield; print(discretisedfield.__file__)"`).
Set `MPLBACKEND=Agg` if you plot.  There is no network.

## The property ({pid}): {p['title']}

{p['statement']}

Quantified over: {p.get('quantifier','')}

Code it is anchored in: {', '.join(p['anchors']['files'])}
{mech}

## What to produce: TWO independent changes (a and b), each of which

1. is a small, realistic change to the library source (the kind of slip or "optimisation"/"refactor"/"bug fix"
   a maintainer could plausibly commit: an off-by-one, a wrong axis, a stale cache, a fast path with a wrong
   precondition, a tolerance slip, state that is not updated on one code path, two sites that each look fine
   alone ...), NOT a change to tests, and not something cartoonishly malicious;
2. BREAKS the property above for some inputs — while the library still imports and the EXISTING test suite still
   passes unchanged.  Suite command (takes ~2-3 minutes; run it from the worktree root, at the end, for each change separately):
   `cd {wt} && PYTHONPATH={wt} PATH=/venv/bin:$PATH /venv/bin/python -m pytest -q -x -p no:cacheprovider --timeout=900 --basetemp={wt}/.pt --deselect discretisedfield/tests/test_field.py::test_pyvista_streamlines`
   (`test_pyvista_streamlines` fails in this sandbox even without any change; ignore it.)
3. needs something SPECIFIC to manifest — an unusual but legitimate input (particular parity/shape, a
   single-cell axis, non-default names, permuted component mapping, a mask, a particular dtype, a far-away or
   tiny-scale mesh, a value exactly on a face ...), a multi-step sequence of operations, a particular earlier
   call leaving state behind, or two cooperating sites — NOT something that ordinary first use (the README
   example, a cubic mesh with default arguments) would expose at once.  Aim for subtle: a careful generic
   checker of the property should have to work to find it.  The two changes must have different root causes
   and preferably live in different functions.  For THIS round: change (a) must be a *lifecycle / hidden-state* slip: it shows only on
   an object that has been used before - a cached or memoised derived quantity that one write path does not refresh,
   a mutable object (array, dict, Region) shared between a result and its source, state left behind by a refused or
   failed call, a second call that behaves differently from the first, an object that came out of another library
   operation (a reload, a transform, a slice, a copy) and differs invisibly from a freshly constructed one.
   Change (b) must be a *representation / typing* slip: it shows only for a particular but legitimate
   representation of the input - Python int versus float versus numpy scalar arguments, tuple versus list versus
   ndarray, `pathlib.Path` versus `str`, a dtype such as float32 / int / complex / bool, a non-contiguous or read-only
   array, negative zero / NaN / inf values, many-component (5+) or unlabelled vector fields, integer-typed region
   corners, a non-default `tolerance_factor`, names that are unusual but accepted.
   Do NOT repeat any of the ideas already used for this property in earlier rounds:
{done}
4. comes with a demonstration `demo.py`: a small stand-alone program using only the public API that checks
   the PROPERTY (not an implementation detail) on a few inputs, exits 0 on the unchanged library and exits
   non-zero (assertion/exception) with your change applied.  The demo must be a legitimate consequence of
   the property text above: an input the library documents/accepts and an expectation the statement makes.

## Procedure per change
- Read the anchored code, decide the change, edit the worktree.
- Write `demo.py`; run it with the change (must fail) and without it (must pass: exit 0). Do NOT use `git stash` (the stash is shared between all worktrees of the repository and other agents work in parallel): use `git diff > /tmp/seed/out/.../patch.diff; git checkout -- .; <run demo>; patch -p1 < patch.diff` instead, and check `git diff` shows only your own change before saving.
- Run the full suite with the change applied (must pass apart from the deselected test).
- Save `git diff > {out}/a/patch.diff` (paths relative to the repo root, applies with `patch -p1`), `demo.py`, and
  `notes.md` (what the change is, why it looks plausible, exactly what is needed for it to manifest, what you ran
  and the results).  Then `git checkout -- .` so the worktree is clean before starting change b (patches a and b
  must each apply on their own to the clean tree).
- Finish with the worktree clean (`git status` shows no modifications; remove `.pt`).

Your final message: for each of a and b, one paragraph: the change, what it needs to manifest, and the
observed results (demo with/without, suite).
"""
    open(f'/tmp/seed/PROMPT_{pid}-{rnd}.md','w').write(txt)
    print(pid, wt)

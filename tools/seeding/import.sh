#!/bin/bash
# usage: import.sh C20 r2 3 4   -> confirm /tmp/seed/out/C20-r2/{a,b} as C20-3, C20-4 then run the checks
p=$1; r=$2; n1=$3; n2=$4
cd /verif
for pair in "a $n1" "b $n2"; do set -- $pair
  src=/tmp/seed/out/$p-$r/$1; name=$p-$2
  if [ ! -f $src/patch.diff ]; then echo "$name: no patch"; continue; fi
  /venv/bin/python tools/confirm_seeded.py $src $name $p > /tmp/seed/out/$p-$r/confirm_$1.log 2>&1
  echo "$name confirm rc=$? $(tail -1 /tmp/seed/out/$p-$r/confirm_$1.log)"
  if [ -d seeded/$name ]; then /venv/bin/python mutants/run_mutants.py --seeded --id $name 2>&1 | grep -v WARNING | tail -3; fi
done

import warnings, numpy as np, discretisedfield as df, itertools, collections
import discretisedfield.tools as dft
warnings.simplefilter("ignore")
rng = np.random.default_rng(20)
stats = collections.Counter(); ex={}
def rec(k, v): stats[k]+=1; ex.setdefault(k, v)
for margin in [2,3,4]:
  for trial in range(150):
    n = tuple(int(k) for k in rng.integers(2*margin, 2*margin+6, size=3)); cell=(rng.random(3)*1.5+0.5)
    p1 = rng.standard_normal(3)
    mesh = df.Mesh(p1=tuple(p1), p2=tuple(p1+cell*np.array(n)), n=n)
    ci = [int(rng.integers(margin, k-margin+1)) for k in n]; c = np.array([mesh.vertices[d][ci[d]] for d in range(3)])
    if rng.random()<0.5: c = c + (rng.random(3)-0.5)*cell*0.98  # off-vertex centre
    sgn = int(rng.choice([1,-1]))
    f = df.Field(mesh, nvdim=3, value=lambda p: sgn*(np.asarray(p)-c), norm=1)
    for d in 'xyz':
        r = dft.count_bps(f, d)
        exp_tt, exp_hh = (1,0) if sgn==1 else (0,1)
        if not (r["bp_number"]==1 and r["bp_number_tt"]==exp_tt and r["bp_number_hh"]==exp_hh): rec(("hedgehog", margin), (n, ci, cell, r))
    stats[("cases", margin)]+=1
for k in sorted(stats, key=str): print(k, stats[k], ex.get(k))

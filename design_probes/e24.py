import warnings, numpy as np, discretisedfield as df, itertools, collections, tempfile, os, struct, re
warnings.simplefilter("ignore")
rng = np.random.default_rng(14)
stats = collections.Counter(); ex={}
def rec(k, v): stats[k]+=1; ex.setdefault(k, v)
def ref_read_ovf2(path):
    raw = open(path, "rb").read()
    m = re.search(rb"# Begin: Data (Text|Binary 4|Binary 8)\n", raw)
    head = raw[:m.start()].decode(); mode = m.group(1).decode()
    h = {}
    for line in head.splitlines():
        if line.startswith("#") and ":" in line:
            k, v = line[1:].split(":", 1); h[k.strip().lower()] = v.strip()
    n = [int(h[f"{a}nodes"]) for a in "xyz"]; vd = int(h["valuedim"])
    body = raw[m.end():]
    cnt = n[0]*n[1]*n[2]*vd
    if mode == "Text":
        end = body.index(b"# End: Data")
        vals = np.array(body[:end].split(), dtype=float)
    elif mode == "Binary 8":
        assert struct.unpack("<d", body[:8])[0] == 123456789012345.0
        vals = np.frombuffer(body[8:8+8*cnt], dtype="<f8")
    else:
        assert struct.unpack("<f", body[:4])[0] == 1234567.0
        vals = np.frombuffer(body[4:4+4*cnt], dtype="<f4").astype(float)
    data = vals.reshape(n[2], n[1], n[0], vd).transpose(2,1,0,3)  # x fastest
    return h, data
with tempfile.TemporaryDirectory() as t:
  for trial in range(200):
    n = tuple(int(k) for k in rng.integers(1, 5, size=3))
    scale = float(rng.choice([1e-9, 1e-3, 1, 1e3])); off = rng.choice([0,1,100])
    p1 = (rng.random(3)-0.5)*scale*off; cell=(rng.random(3)+0.2)*scale
    mesh = df.Mesh(region=df.Region(p1=tuple(p1), p2=tuple(p1+cell*np.array(n)), units=['nm']*3), n=n)
    nv = int(rng.integers(1, 6))
    arr = rng.standard_normal((*n, nv)) * 10.0**rng.integers(-300, 300, size=(*n, nv))
    vd = None if nv == 1 else [f"c{i}" for i in range(nv)]
    unit = "A/m"
    f = df.Field(mesh, nvdim=nv, value=arr, vdims=vd, unit=unit)
    for rep in ["bin8", "bin4", "txt"]:
        es = bool(nv == 1 and rng.random()<0.5)
        fn = os.path.join(t, f"f{trial}{rep}.ovf")
        try:
            with np.errstate(all="ignore"):
                f.to_file(fn, representation=rep, extend_scalar=es)
        except Exception as e:
            rec(("write-raise", rep, es), repr(e)[:100]); continue
        try:
            g = df.Field.from_file(fn)
        except Exception as e:
            rec(("read-raise", rep, es), repr(e)[:100]); continue
        expv = arr if not es else np.concatenate([arr, np.zeros((*n,2))], axis=-1)
        with np.errstate(all="ignore"):
            if rep == "bin4": expv = expv.astype(np.float32).astype(float)
        if rep == "txt":
            if not np.allclose(g.array, expv, rtol=1e-9, atol=0): rec(("values", rep, es), 1)
        elif not np.array_equal(g.array, expv): rec(("values", rep, es), (g.array.shape, expv.shape))
        if not (np.array_equal(g.mesh.region.pmin, mesh.region.pmin) and np.array_equal(g.mesh.region.pmax, mesh.region.pmax)): rec(("corners", rep), 1)
        if not np.array_equal(g.mesh.n, n): rec(("n", rep), 1)
        if g.mesh.region.units != mesh.region.units: rec("meshunit", 1)
        if g.unit != unit: rec("unit", g.unit)
        if nv > 1 and g.vdims != vd: rec("labels", g.vdims)
        h, data = ref_read_ovf2(fn)
        if not (data.shape == expv.shape and (np.allclose(data, expv, rtol=1e-9, atol=0) if rep=="txt" else np.array_equal(data, expv))): rec(("indep-reader-values", rep, es), 1)
        for i,a in enumerate("xyz"):
            if float(h[f"{a}min"]) != mesh.region.pmin[i] or float(h[f"{a}max"]) != mesh.region.pmax[i]: rec("hdr-minmax", 1)
            if not np.isclose(float(h[f"{a}stepsize"]), mesh.cell[i], rtol=1e-14): rec("hdr-step", 1)
            if not np.isclose(float(h[f"{a}base"]), mesh.region.pmin[i]+mesh.cell[i]/2, rtol=1e-12, atol=1e-14*scale*100): rec("hdr-base", (h[f"{a}base"], mesh.region.pmin[i]+mesh.cell[i]/2))
    stats["cases"]+=1
for k in sorted(stats, key=str): print(k, stats[k], ex.get(k))

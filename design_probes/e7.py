import warnings, numpy as np, discretisedfield as df, itertools
warnings.simplefilter("ignore")
rng = np.random.default_rng(1)
def ref_dft(f, kmesh):
    mesh = f.mesh
    nd = mesh.region.ndim
    idx = np.indices(mesh.n).reshape(nd, -1).T  # cell indices
    r = idx * mesh.cell  # from first cell
    out = np.zeros((*kmesh.n, f.nvdim), dtype=complex)
    kc = [np.asarray(c) for c in kmesh.cells]
    vals = f.array.reshape(-1, f.nvdim)
    for kidx in itertools.product(*map(range, kmesh.n)):
        k = np.array([kc[d][kidx[d]] for d in range(nd)])
        ph = np.exp(-2j*np.pi*(r @ k))
        out[kidx] = (vals * ph[:, None]).sum(0)
    return out
for n in [(4,), (5,), (1,), (4,3), (3,4), (5,5), (2,1,3), (1,4), (4,1), (3,1,2,2)]:
    nd = len(n)
    p1 = rng.random(nd)*3-1; cell = rng.random(nd)+0.5
    mesh = df.Mesh(p1=tuple(p1), p2=tuple(p1+cell*np.array(n)), n=n)
    f = df.Field(mesh, nvdim=2, value=rng.standard_normal((*n,2)))
    F = f.fftn(); R = f.rfftn()
    okF = np.allclose(F.array, ref_dft(f, F.mesh))
    okR = np.allclose(R.array, ref_dft(f, R.mesh))
    # freq check
    fr = [np.allclose(np.asarray(F.mesh.cells[d]), np.fft.fftshift(np.fft.fftfreq(n[d], mesh.cell[d]))) for d in range(nd)]
    inv = F.ifftn(); invok = np.allclose(inv.array, f.array) and np.allclose(inv.mesh.cell, mesh.cell) and np.array_equal(inv.mesh.n, mesh.n) and np.allclose(inv.mesh.region.center, 0, atol=1e-12)
    try:
        ri = R.irfftn(shape=n); riok = np.allclose(ri.array, f.array) and np.array_equal(ri.mesh.n, mesh.n) and np.allclose(ri.mesh.cell, mesh.cell)
    except Exception as e:
        riok = repr(e)
    try:
        ri2 = R.irfftn(); ri2n = ri2.mesh.n.tolist()
    except Exception as e:
        ri2n = repr(e)[:80]
    print(n, "fftn==ref", okF, "rfftn==ref", okR, "freqs", fr, "ifftn", invok, "irfftn(shape)", riok, "irfftn() n", ri2n, "zero-freq?", F.mesh.dims if hasattr(F.mesh,'dims') else '')

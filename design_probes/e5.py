import warnings, numpy as np, discretisedfield as df, itertools
warnings.simplefilter("ignore")
import discretisedfield.tools as dft
for cell, n in [((1,1,1),(2,3,2)), ((1,2,3),(2,2,2)), ((2e-9,1e-9,1e-9),(3,2,2)), ((1,1,2),(2,2,1))]:
    mesh = df.Mesh(p1=(0,0,0), p2=tuple(c*k for c,k in zip(cell,n)), n=n)
    t1 = dft.demag_tensor(mesh)
    t2 = dft.tools._demag_tensor_field_based(mesh)
    tr = (t1.array[...,0]+t1.array[...,1]+t1.array[...,2])
    print(cell, n, "trace range", tr.real.min(), tr.real.max(), "imag max", abs(tr.imag).max(), "impl agree", np.allclose(t1.array, t2.array))
    m = df.Field(mesh, nvdim=3, value=(0,0,1))
    H = [dft.demag_field(df.Field(mesh, nvdim=3, value=v), t1).mean() for v in [(1,0,0),(0,1,0),(0,0,1)]]
    print("   Hxx,Hyy,Hzz", H[0][0], H[1][1], H[2][2], "sum", H[0][0]+H[1][1]+H[2][2])

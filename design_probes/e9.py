import warnings, numpy as np, discretisedfield as df, itertools, collections
warnings.simplefilter("ignore")
rng = np.random.default_rng(3)
stats = collections.Counter(); ex = {}
def rec(key, info):
    stats[key]+=1; ex.setdefault(key, info)
def mk(scale):
    nd = int(rng.integers(1, 4))
    n = rng.integers(2, 8, size=nd)
    off = rng.choice([0, 1, 10])
    p1 = (rng.random(nd) - 0.5) * scale * off
    cellv = (rng.integers(1, 20, size=nd) / 10.0) * scale if rng.random()<0.5 else (rng.random(nd)+0.1)*scale
    p2 = p1 + cellv * n
    mesh = df.Mesh(p1=tuple(p1.tolist()), p2=tuple(p2.tolist()), n=tuple(int(k) for k in n))
    verts = mesh.vertices
    srs = {}
    for j in range(int(rng.integers(1, 4))):
        lo = [int(rng.integers(0, k)) for k in n]; hi = [int(rng.integers(l+1, k+1)) for l,k in zip(lo,n)]
        srs[f"s{j}"] = (lo, hi, df.Region(p1=[float(verts[d][lo[d]]) for d in range(nd)], p2=[float(verts[d][hi[d]]) for d in range(nd)]))
    mesh.subregions = {k: v[2] for k, v in srs.items()}
    return mesh, srs
for scale in [1e-9, 1e-3, 1]:
  for trial in range(600):
    try:
        mesh, srs = mk(scale)
    except ValueError as e:
        rec(("gen-fail", scale), repr(e)[:80]); continue
    nd = mesh.region.ndim; n = mesh.n
    d = int(rng.integers(0, nd)); dim = mesh.region.dims[d]
    verts = mesh.vertices
    # range between two vertices/centres/random points
    kind = rng.choice(["vertex", "centre", "random"])
    if kind == "vertex":
        a = int(rng.integers(0, n[d]+1)); b = int(rng.integers(a, n[d]+1)); lo = float(verts[d][a]); hi = float(verts[d][b])
    elif kind == "centre":
        a = int(rng.integers(0, n[d])); b = int(rng.integers(a, n[d])); lo = float(mesh.cells[d][a]); hi = float(mesh.cells[d][b])
    else:
        lo, hi = sorted((mesh.region.pmin[d] + rng.random(2) * mesh.region.edges[d]).tolist())
    try:
        sm = mesh.sel(**{dim: (lo, hi)})
    except Exception as e:
        rec(("selrange-raise", kind, scale), (repr(e)[:120], mesh.region.pmin.tolist(), mesh.region.pmax.tolist(), n.tolist(), dim, lo, hi, {k:(v[0],v[1]) for k,v in srs.items()}))
        continue
    # expected kept cells
    ilo = mesh.point2index([lo if j==d else mesh.region.center[j] for j in range(nd)])[d]
    ihi = mesh.point2index([hi if j==d else mesh.region.center[j] for j in range(nd)])[d]
    if sm.n[d] != ihi-ilo+1: rec(("selrange-n", kind, scale), 1)
    # expected subregions: overlap in cell index space
    exp = {k for k,(l,h,_) in srs.items() if l[d] <= ihi and h[d]-1 >= ilo}
    if set(sm.subregions) != exp: rec(("selrange-subregions", kind, scale), (set(sm.subregions), exp, ilo, ihi, {k:(v[0][d],v[1][d]) for k,v in srs.items()}))
    # plane sel
    if nd > 1:
        val = float(verts[d][int(rng.integers(0, n[d]+1))]) if rng.random()<0.5 else float(mesh.region.pmin[d] + rng.random()*mesh.region.edges[d])
        try:
            pm = mesh.sel(**{dim: val})
        except Exception as e:
            rec(("selplane-raise", scale), repr(e)[:100]); continue
        i = mesh.point2index([val if j==d else mesh.region.center[j] for j in range(nd)])[d]
        exp = {k for k,(l,h,_) in srs.items() if l[d] <= i <= h[d]-1}
        if set(pm.subregions) != exp: rec(("selplane-subregions", scale), (set(pm.subregions), exp, i, val, {k:(v[0][d],v[1][d], v[2].pmin[d], v[2].pmax[d]) for k,v in srs.items()}))
for k in sorted(stats, key=str): print(k, stats[k], ex[k])

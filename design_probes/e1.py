import warnings, numpy as np, discretisedfield as df, h5py, os, tempfile
print(df.__version__, np.__version__)
# legacy hdf5
d = os.path.dirname(df.__file__)+"/tests/test_sample/"
with h5py.File(d+"hdf5-file.hdf5") as f:
    print(dict(f.attrs)); f.visit(print)
try:
    f = df.Field.from_file(d+"hdf5-file.hdf5"); print("legacy read OK", f.nvdim, f.mesh.n)
except Exception as e:
    print("legacy read FAIL", type(e), e)

# hdf5 unit None
mesh = df.Mesh(p1=(0,0,0), p2=(10,10,10), n=(20,20,20), subregions={'a': df.Region(p1=(0.5,0,0), p2=(2.5,10,10))})
fld = df.Field(mesh, nvdim=3, value=(1,2,3))
with tempfile.TemporaryDirectory() as t:
    fld.to_file(t+"/a.h5")
    try:
        g = df.Field.from_file(t+"/a.h5")
        print("unit", repr(g.unit), "subregions", g.mesh.subregions)
    except Exception as e:
        print("h5 int corners + frac subregion FAIL:", type(e), e)
    fld.to_file(t+"/a.ovf")
    g = df.Field.from_file(t+"/a.ovf"); print("ovf unit", repr(g.unit), g.vdims)
    f2 = df.Field(mesh, nvdim=2, value=(1,2), vdims=['m_x','m_y'])
    f2.to_file(t+"/b.ovf")
    g = df.Field.from_file(t+"/b.ovf"); print("ovf labels", g.vdims)

import warnings, numpy as np, discretisedfield as df, itertools, collections
warnings.simplefilter("ignore")
rng = np.random.default_rng(8)
stats = collections.Counter(); ex={}
def rec(k, v): stats[k]+=1; ex.setdefault(k, v)
for trial in range(400):
    nd = int(rng.integers(1, 4)); n = rng.integers(1, 5, size=nd)
    mesh = df.Mesh(p1=(0,)*nd, p2=tuple(float(k) for k in n), n=tuple(int(k) for k in n))
    nv = int(rng.integers(1, 5))
    mag = 10.0**rng.integers(-6, 151, size=tuple(n))
    dirs = rng.standard_normal((*n, nv)); dirs /= np.linalg.norm(dirs, axis=-1, keepdims=True)
    arr = dirs*mag[..., None]
    zero = rng.random(tuple(n)) < 0.25
    arr[zero] = 0
    f = df.Field(mesh, nvdim=nv, value=arr)
    kind = rng.choice(["const", "array", "func", "zero-in-places"])
    if kind == "const": target = float(10.0**rng.integers(-6, 7)); tv = np.full(tuple(n), target)
    elif kind == "array": tv = 10.0**rng.integers(-6, 7, size=tuple(n)).astype(float); target = tv[..., None]
    elif kind == "func":
        target = lambda p: 1.0 + np.sum(np.atleast_1d(p)); tv = np.array([1.0+np.sum(mesh.index2point(i)) for i in itertools.product(*map(range, n))]).reshape(tuple(n))
    else:
        tv = 10.0**rng.integers(-3, 3, size=tuple(n)).astype(float); tv[rng.random(tuple(n))<0.3] = 0; target = tv[..., None]
    try:
        f.norm = target
    except Exception as e:
        rec(("norm-set-raise", kind), repr(e)[:100]); continue
    newn = np.linalg.norm(f.array, axis=-1)
    if not np.allclose(newn[~zero], tv[~zero], rtol=1e-12, atol=0): rec(("norm-value", kind), (newn[~zero], tv[~zero]))
    if not np.all(f.array[zero] == 0): rec("zero-stays-zero", 1)
    # direction
    nz = (~zero) & (tv != 0)
    if nz.any():
        d2 = f.array[nz]/np.linalg.norm(f.array[nz], axis=-1, keepdims=True)
        if not np.allclose(d2, dirs[nz], atol=1e-12): rec("direction", 1)
    # orientation
    f = df.Field(mesh, nvdim=nv, value=arr, unit="A/m", valid=rng.random(tuple(n))<0.8)
    if nv > 1:
        o = f.orientation
        on = np.linalg.norm(o.array, axis=-1)
        if not np.allclose(on[~zero], 1, atol=1e-12): rec("orientation-unit", (on[~zero], mag[~zero]))
        if not np.all(o.array[zero]==0): rec("orientation-zero", 1)
        back = (o*f.norm)
        if not np.allclose(back.array, f.array, rtol=1e-12, atol=0): rec("o*n", 1)
        if not np.array_equal(o.valid, f.valid): rec("o-valid", 1)
    nf = f.norm
    if nf.nvdim != 1 or nf.unit != "A/m" or not np.array_equal(nf.valid, f.valid) or nf.mesh != f.mesh: rec("norm-meta", 1)
    if not np.allclose(nf.array[...,0], np.where(zero, 0, mag), rtol=1e-12): rec("norm-get", 1)
    stats["cases"]+=1
for k in sorted(stats, key=str): print(k, stats[k], ex.get(k))

import warnings, numpy as np, discretisedfield as df, itertools, collections, tempfile, os
warnings.simplefilter("ignore")
rng = np.random.default_rng(13)
stats = collections.Counter(); ex={}
def rec(k, v): stats[k]+=1; ex.setdefault(k, v)
with tempfile.TemporaryDirectory() as t:
  for trial in range(300):
    nd = int(rng.integers(1, 5)); n = tuple(int(k) for k in rng.integers(1, 5, size=nd))
    intc = rng.random() < 0.4
    if intc:
        p1 = rng.integers(-5, 5, size=nd); cellv = rng.integers(1, 4, size=nd); p2 = p1 + cellv*np.array(n)
        p1 = tuple(int(x) for x in p1); p2 = tuple(int(x) for x in p2)
    else:
        p1 = rng.standard_normal(nd); p2 = p1 + (rng.random(nd)+0.2)*np.array(n); p1=tuple(p1.tolist()); p2=tuple(p2.tolist())
    dims = [str(x) for x in rng.permutation(['a','b','c','d','e'])[:nd]]; units = [str(x) for x in rng.choice(['m','nm','s','rad'], size=nd)]
    tf = float(rng.choice([1e-12, 1e-9, 1e-6]))
    bc = "".join(d for d in dims if rng.random()<0.3) if rng.random()<0.7 else str(rng.choice(["neumann","dirichlet"]))
    mesh = df.Mesh(region=df.Region(p1=p1, p2=p2, dims=dims, units=units, tolerance_factor=tf), n=n, bc=bc)
    verts = mesh.vertices; srs = {}
    for j in range(int(rng.integers(0, 3))):
        lo = [int(rng.integers(0, k)) for k in n]; hi = [int(rng.integers(l+1, k+1)) for l,k in zip(lo,n)]
        a = [verts[d][lo[d]] for d in range(nd)]; b = [verts[d][hi[d]] for d in range(nd)]
        if intc and rng.random()<0.5: a = [int(round(x)) for x in a]; b=[int(round(x)) for x in b]
        else: a=[float(x) for x in a]; b=[float(x) for x in b]
        srs[f"s{j}"] = df.Region(p1=a, p2=b)
    try: mesh.subregions = srs
    except ValueError as e: rec("gen-subregion-reject", repr(e)[:60]); continue
    nv = int(rng.integers(1, 5)); dt = str(rng.choice(["float","complex","int"]))
    arr = rng.standard_normal((*n, nv))
    if dt=="complex": arr = arr + 1j*rng.standard_normal((*n, nv))
    if dt=="int": arr = rng.integers(-9,9,size=(*n,nv))
    vd = None if (nv==1 or rng.random()<0.2) else [f"c{i}" for i in range(nv)]
    if vd is None and nv > 3: vd = None
    unit = None if rng.random()<0.4 else "A/m"
    f = df.Field(mesh, nvdim=nv, value=arr, vdims=vd, unit=unit, valid=rng.random(n)<0.7, dtype=arr.dtype)
    fn = os.path.join(t, f"f{trial}.h5")
    try:
        f.to_file(fn); g = df.Field.from_file(fn)
    except Exception as e:
        rec(("roundtrip-raise", "intc" if intc else "floatc", len(srs)), repr(e)[:100]); continue
    if not (np.array_equal(g.mesh.region.pmin, mesh.region.pmin) and np.array_equal(g.mesh.region.pmax, mesh.region.pmax)): rec("corners", 1)
    if g.mesh.region.dims != mesh.region.dims: rec("dims", (g.mesh.region.dims, mesh.region.dims))
    if g.mesh.region.units != mesh.region.units: rec("units", 1)
    if g.mesh.region.tolerance_factor != tf: rec("tf", 1)
    if not np.array_equal(g.mesh.n, mesh.n): rec("n", 1)
    if g.mesh.bc != mesh.bc: rec("bc", (g.mesh.bc, mesh.bc))
    if set(g.mesh.subregions) != set(mesh.subregions) or list(g.mesh.subregions) != list(mesh.subregions): rec("sr-names", 1)
    else:
        for k in mesh.subregions:
            if g.mesh.subregions[k] != mesh.subregions[k]: rec(("sr-corners", "intc" if intc else "floatc"), (mesh.subregions[k].pmin, g.mesh.subregions[k].pmin)); break
    if g.vdims != f.vdims: rec("vdims", (g.vdims, f.vdims))
    if g.unit != f.unit: rec("unit", (g.unit, f.unit))
    if not (np.array_equal(g.array, f.array) ): rec("values", 1)
    if np.iscomplexobj(g.array) != np.iscomplexobj(f.array): rec("complexness", 1)
    if g.array.dtype != f.array.dtype: rec(("dtype", str(f.array.dtype), str(g.array.dtype)), 1)
    if not np.array_equal(g.valid, f.valid): rec("valid", 1)
    if g != f: rec("neq", 1)
    stats["cases"]+=1
for k in sorted(stats, key=str): print(k, stats[k], ex.get(k))

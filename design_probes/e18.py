import warnings, numpy as np, discretisedfield as df, itertools, collections
warnings.simplefilter("ignore")
stats = collections.Counter(); ex={}
def rec(k, v): stats[k]+=1; ex.setdefault(k, v)
h = 0.7
def runs(valid):
    out=[]; s=None
    for i,v in enumerate(valid):
        if v and s is None: s=i
        if not v and s is not None: out.append((s,i)); s=None
    if s is not None: out.append((s,len(valid)))
    return out
for L in range(1, 9):
  for pattern in itertools.product([True, False], repeat=L):
    valid = np.array(pattern)
    for order in (1,2):
      for pbc in (False, True):
        mesh = df.Mesh(p1=1.3, p2=1.3+h*L, n=L, bc='x' if pbc else '')
        x = np.asarray(mesh.cells.x)
        maxdeg = 3
        res = {}
        for deg in range(maxdeg+1):
            f = df.Field(mesh, nvdim=1, value=((x-2.0)**deg)[:,None], valid=valid)
            res[deg] = f.diff('x', order=order).array[:,0]
        if not pbc:
            for (a,b) in runs(valid):
                m = b-a
                for deg in range(maxdeg+1):
                    if order==1: exact = deg*(x[a:b]-2.0)**(deg-1) if deg>0 else np.zeros(m)
                    else: exact = deg*(deg-1)*(x[a:b]-2.0)**(deg-2) if deg>1 else np.zeros(m)
                    got = res[deg][a:b]
                    if m <= order:
                        if not np.all(got==0): rec(("short-run-nonzero", order), (pattern,a,b))
                    else:
                        lim = (1 if m==2 else 2) if order==1 else (2 if m==3 else 3)
                        if deg <= lim and not np.allclose(got, exact, atol=1e-9): rec(("exactness", order, m, deg), (pattern, got, exact))
            for deg in res:
                if not np.all(res[deg][~valid]==0): rec("invalid-nonzero", 1)
        else:
            # shift commutation
            rng = np.random.default_rng(L*1000+sum(pattern))
            vals = rng.standard_normal(L)
            f = df.Field(mesh, nvdim=1, value=vals[:,None], valid=valid)
            d0 = f.diff('x', order=order).array[:,0]
            for s in range(1, L):
                g = df.Field(mesh, nvdim=1, value=np.roll(vals, s)[:,None], valid=np.roll(valid, s))
                ds = g.diff('x', order=order).array[:,0]
                if not np.allclose(ds, np.roll(d0, s), atol=1e-9): rec(("pbc-shift", order, "allvalid" if valid.all() else "masked"), (pattern, s)); break
            if valid.all():
                cen = (np.roll(vals,-1)-np.roll(vals,1))/(2*h) if order==1 else (np.roll(vals,-1)-2*vals+np.roll(vals,1))/h**2
                if not np.allclose(d0, cen, atol=1e-9): rec(("pbc-centred", order, L), (d0, cen))
for k in sorted(stats, key=str): print(k, stats[k], ex.get(k))
print("done")

import warnings, numpy as np, discretisedfield as df, itertools, collections, copy
warnings.simplefilter("ignore")
rng = np.random.default_rng(24)
stats = collections.Counter(); ex={}
def rec(k, v): stats[k]+=1; ex.setdefault(k, v)
def mkmesh(scale):
    nd = int(rng.integers(1, 5)); n = tuple(int(k) for k in rng.integers(1, 6, size=nd))
    cell=(rng.integers(1,30,size=nd)/10.0)*scale; p1 = rng.integers(-50,50,size=nd)*cell
    dims = ['a','b','c','d'][:nd]; units=[f'u{i}' for i in range(nd)]
    mesh = df.Mesh(region=df.Region(p1=tuple(p1.tolist()), p2=tuple((p1+cell*np.array(n)).tolist()), dims=dims, units=units), n=n)
    verts = mesh.vertices; srs={}
    for j in range(int(rng.integers(0,3))):
        lo = [int(rng.integers(0, k)) for k in n]; hi = [int(rng.integers(l+1, k+1)) for l,k in zip(lo,n)]
        srs[f"s{j}"] = df.Region(p1=[float(verts[d][lo[d]]) for d in range(nd)], p2=[float(verts[d][hi[d]]) for d in range(nd)])
    mesh.subregions = srs
    return mesh
def clone(m):
    return df.Mesh(region=df.Region(p1=m.region.pmin.copy(), p2=m.region.pmax.copy(), dims=m.region.dims, units=m.region.units, tolerance_factor=m.region.tolerance_factor), n=m.n.copy(), bc=m.bc,
                   subregions={k: df.Region(p1=v.pmin.copy(), p2=v.pmax.copy()) for k,v in m.subregions.items()})
for scale in [1e-9, 1e-6, 1e-3, 1]:
  for trial in range(150):
    try: m = mkmesh(scale)
    except ValueError as e: rec(("gen", scale), repr(e)[:60]); continue
    a = clone(m); b = clone(m)   # a: in-place chain, b: copy chain
    nd = m.region.ndim; dims = m.region.dims
    for step in range(10):
        kind = rng.choice(["translate","scale","rotate90"]) if nd>1 else rng.choice(["translate","scale"])
        E = a.region.edges
        if kind=="translate": args=((tuple((rng.uniform(-3,3,size=nd)*E).tolist()),), {})
        elif kind=="scale":
            fac = float(rng.choice([-1,1])*rng.uniform(0.25,4)) if rng.random()<0.5 else tuple((rng.choice([-1,1],size=nd)*rng.uniform(0.25,4,size=nd)).tolist())
            ref = None if rng.random()<0.5 else tuple((a.region.center + rng.uniform(-5,5,size=nd)*E).tolist())
            args=((fac,), {"reference_point": ref})
        else:
            i,j = rng.choice(nd, size=2, replace=False); ref = None if rng.random()<0.5 else tuple((a.region.center + rng.uniform(-5,5,size=nd)*E).tolist())
            args=((dims[i], dims[j]), {"k": int(rng.integers(-5,6)), "reference_point": ref})
        neg = kind=="scale" and np.any(np.asarray(args[0][0])<0)
        try:
            b2 = getattr(b, kind)(*args[0], **args[1])
        except Exception as e:
            rec(("copy-raise", kind, scale), (repr(e)[:90], step, float(np.abs(b.region.pmax).max()/scale))); break
        if max(np.abs(b2.region.pmin).max(), np.abs(b2.region.pmax).max()) > 300*scale or b2.cell.min() < 0.02*scale:
            stats["skipped-growth"]+=1; continue
        b = b2
        if neg:  # skip in-place for known finding D1: rebuild a from b
            a = clone(b); continue
        try:
            r = getattr(a, kind)(*args[0], inplace=True, **args[1])
        except Exception as e:
            rec(("inplace-raise", kind, scale), repr(e)[:90]); break
        tol = 1e-9*max(np.abs(b.region.pmin).max(), np.abs(b.region.pmax).max(), b.region.edges.max())
        if not (np.allclose(a.region.pmin, b.region.pmin, rtol=0, atol=tol) and np.allclose(a.region.pmax, b.region.pmax, rtol=0, atol=tol) and np.array_equal(a.n, b.n)): rec(("twin-diverge", kind), 1); break
        for k_ in a.subregions:
            if not (np.allclose(a.subregions[k_].pmin, b.subregions[k_].pmin, rtol=0, atol=tol) and np.allclose(a.subregions[k_].pmax, b.subregions[k_].pmax, rtol=0, atol=tol)): rec(("twin-sr-diverge", kind), 1); break
        stats["steps"]+=1
    stats[("hist", scale)]+=1
for k in sorted(stats, key=str): print(k, stats[k], ex.get(k))

import warnings, numpy as np, discretisedfield as df, itertools, collections
warnings.simplefilter("ignore")
rng = np.random.default_rng(4)
# C05: permuted mapping curl/div vs reference
def ref_d(a, axis, h): return np.gradient(a, h, axis=axis, edge_order=2)
mesh = df.Mesh(p1=(0,0,0), p2=(4*0.5,5*0.7,6*1.1), n=(4,5,6), )
mesh = df.Mesh(region=df.Region(p1=(0,0,0), p2=(4*0.5,5*0.7,6*1.1), dims=('a','b','c')), n=(4,5,6))
arr = rng.standard_normal((4,5,6,3))
for perm in itertools.permutations(range(3)):
    vd = ['p','q','r']; mapping = {vd[i]: mesh.region.dims[perm[i]] for i in range(3)}
    f = df.Field(mesh, nvdim=3, value=arr, vdims=vd, vdim_mapping=mapping)
    # component along axis j:
    comp = {perm[i]: arr[..., i] for i in range(3)}  # axis index -> component array
    h = mesh.cell
    div = sum(ref_d(comp[j], j, h[j]) for j in range(3))
    cx = ref_d(comp[2], 1, h[1]) - ref_d(comp[1], 2, h[2])
    cy = ref_d(comp[0], 2, h[2]) - ref_d(comp[2], 0, h[0])
    cz = ref_d(comp[1], 0, h[0]) - ref_d(comp[0], 1, h[1])
    c = f.curl
    print(perm, "div ok", np.allclose(f.div.array[...,0], div), "curl ok (axis order)", np.allclose(c.array, np.stack([cx,cy,cz],-1)), c.vdims, c.vdim_mapping)
# grad labels
s = df.Field(mesh, nvdim=1, value=arr[...,:1])
g = s.grad; print("grad", g.vdims, g.vdim_mapping)
l = df.Field(mesh, nvdim=3, value=arr, vdims=['p','q','r']).laplace; print("laplace", l.vdims, l.vdim_mapping)
# curl(grad)=0, div(curl)=0
print("curl grad", abs(s.grad.curl.array).max() if True else None)

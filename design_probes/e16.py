import warnings, numpy as np, discretisedfield as df, itertools, collections
import matplotlib; matplotlib.use("Agg")
import matplotlib.pyplot as plt
warnings.simplefilter("ignore")
rng = np.random.default_rng(10)
stats = collections.Counter(); ex={}
def rec(k, v): stats[k]+=1; ex.setdefault(k, v)
import ubermagutil.units as uu
for trial in range(60):
    n = rng.integers(1, 6, size=2); scale = rng.choice([1e-9, 1e-6, 1e-3, 1, 1e3]); cell=(rng.random(2)+0.3)*scale; p1 = (rng.random(2)-0.5)*scale*rng.choice([0,1,10])
    dims = ['a','b']; units=['m','s']
    mesh = df.Mesh(region=df.Region(p1=tuple(p1), p2=tuple(p1+cell*n), dims=dims, units=units), n=tuple(int(k) for k in n))
    valid = rng.random(tuple(n))<0.7
    arr = rng.standard_normal((*n,1))
    f = df.Field(mesh, nvdim=1, value=arr, valid=valid)
    before = (f.array.copy(), f.valid.copy(), f.mesh.region.pmin.copy())
    fig, ax = plt.subplots()
    mult = None if rng.random()<0.5 else float(rng.choice([1e-9,1e-6,1e-3,1,1e3]))
    f.mpl.scalar(ax=ax, multiplier=mult)
    m = mesh.region.multiplier if mult is None else mult
    im = ax.get_images()[0]
    data = np.ma.filled(im.get_array().astype(float), np.nan)
    exp = np.where(valid, arr[...,0], np.nan).T
    if not np.array_equal(data, exp, equal_nan=True): rec("scalar-array", 1)
    if not np.allclose(im.get_extent(), [mesh.region.pmin[0]/m, mesh.region.pmax[0]/m, mesh.region.pmin[1]/m, mesh.region.pmax[1]/m], rtol=1e-12): rec("scalar-extent", (im.get_extent(),))
    if im.origin != "lower": rec("origin", 1)
    if ax.get_xlabel() != f"a ({uu.rsi_prefixes[m]}m)" or ax.get_ylabel() != f"b ({uu.rsi_prefixes[m]}s)": rec("labels", (ax.get_xlabel(), ax.get_ylabel()))
    if not (np.array_equal(before[0], f.array) and np.array_equal(before[1], f.valid)): rec("mutated", 1)
    plt.close(fig)
    # vector
    nv = int(rng.choice([2,3])); vd = ['p','q','r'][:nv]
    varr = rng.standard_normal((*n, nv))
    if nv == 2:
        perm = rng.permutation(2); mapping = {vd[i]: dims[perm[i]] for i in range(2)}
    else:
        perm = rng.permutation(3)[:3]; mapping = {}
        comps = rng.permutation(3)
        mapping = {vd[comps[0]]: 'a', vd[comps[1]]: 'b'}
        # mapping must have keys == vdims or be partial? check
    try:
        v = df.Field(mesh, nvdim=nv, value=varr, vdims=vd, vdim_mapping=mapping if nv==2 else {vd[comps[0]]:'a', vd[comps[1]]:'b', vd[comps[2]]:'zz'}, valid=valid)
    except Exception as e:
        rec("vfield-construct", repr(e)[:100]); continue
    fig, ax = plt.subplots()
    v.mpl.vector(ax=ax, multiplier=mult)
    qv = [c for c in ax.collections if isinstance(c, matplotlib.quiver.Quiver)][0]
    X = np.asarray(qv.X).reshape(n[1], n[0]); Y = np.asarray(qv.Y).reshape(n[1], n[0])
    mk = np.asarray(qv.Umask); mk = np.broadcast_to(mk, qv.U.shape); U = np.where(mk, np.nan, qv.U).reshape(n[1], n[0]); V = np.where(mk, np.nan, qv.V).reshape(n[1], n[0])
    cx = np.asarray(mesh.cells[0])/m; cy = np.asarray(mesh.cells[1])/m
    if not (np.allclose(X, cx[None,:]) and np.allclose(Y, cy[:,None])): rec("quiver-XY", 1)
    r = {vv: kk for kk, vv in v.vdim_mapping.items()}
    eu = np.where(valid, varr[..., vd.index(r['a'])], np.nan).T; ev = np.where(valid, varr[..., vd.index(r['b'])], np.nan).T
    if not (np.array_equal(U, eu, equal_nan=True) and np.array_equal(V, ev, equal_nan=True)): rec("quiver-UV", 1)
    plt.close(fig)
    stats["cases"]+=1
for k in sorted(stats, key=str): print(k, stats[k], ex.get(k))

import warnings, numpy as np, discretisedfield as df
warnings.simplefilter("ignore")
mesh = df.Mesh(p1=(0,0), p2=(2,3), n=(2,3))
f = df.Field(mesh, nvdim=2, value=(1,2), valid=np.array([[1,0,1],[1,1,1]], bool))
for name, g in [("neg", -f), ("abs", abs(f)), ("comp", f.x), ("norm", f.norm), ("orient", f.orientation), ("real", f.real), ("diff", f.diff('x')), ("mul2", f*2), ("f+f", f+f), ("sel", f.sel('x')), ("pad", f.pad({'x':(1,1)}, mode='constant')), ("conj", f.conjugate)]:
    sh = np.shares_memory(g.valid, f.valid)
    before = f.valid.copy()
    g.valid[...] = False
    changed = not np.array_equal(before, f.valid)
    f.valid = before
    print(name, "shares", sh, "operand changed by editing result.valid:", changed, g.valid.dtype)
f.valid = np.ones((2,3)); print("valid from float array dtype:", f.valid.dtype)
f.valid = np.ones((2,3), dtype=int); print("valid from int array dtype:", f.valid.dtype)
f.valid = lambda p: p[0] > 1; print("valid from func:", f.valid.dtype, f.valid)
f.valid = [[1,0,1],[1,1,1]]; print("valid from list dtype:", f.valid.dtype)
u = np.array([[True,False,True],[True,True,True]])
f.valid = u; u[0,0]=False; print("valid aliases user input:", f.valid[0,0]==False)
s = df.Field(mesh, nvdim=1, value=np.arange(6).reshape(2,3)); print("scalar from int array (no dtype):", s.array.dtype)
s2 = df.Field(mesh, nvdim=1, value=np.arange(6).reshape(2,3,1)); print("scalar from int array (n,1):", s2.array.dtype)

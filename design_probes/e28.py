import warnings, numpy as np, discretisedfield as df, itertools, collections
from scipy.spatial.transform import Rotation
warnings.simplefilter("ignore")
rng = np.random.default_rng(17)
stats = collections.Counter(); ex={}
def rec(k, v): stats[k]+=1; ex.setdefault(k, v)
for trial in range(100):
    n = tuple(int(k) for k in rng.integers(1, 6, size=3)); c = float(rng.random()+0.5); p1 = rng.standard_normal(3)
    mesh = df.Mesh(p1=tuple(p1), p2=tuple(p1+c*np.array(n)), n=n)
    nv = int(rng.choice([1,3]))
    f = df.Field(mesh, nvdim=nv, value=rng.standard_normal((*n, nv)))
    ax = int(rng.integers(0,3)); k = int(rng.integers(1,4))
    a1, a2 = [('y','z'),('z','x'),('x','y')][ax]
    fr = df.FieldRotator(f); fr.rotate('from_euler', 'xyz'[ax], k*np.pi/2)
    g = fr.field; h = f.rotate90(a1, a2, k=k)
    if not (np.array_equal(g.mesh.n, h.mesh.n) and np.allclose(g.mesh.region.pmin, h.mesh.region.pmin) and np.allclose(g.mesh.region.pmax, h.mesh.region.pmax)): rec("mesh", (n, g.mesh.n, h.mesh.n)); continue
    if not np.allclose(g.array, h.array, atol=1e-9): rec("values", (n, ax, k, np.abs(g.array-h.array).max()))
    # composition: rotate A then B == single rotate B*A from original
    RA = Rotation.random(random_state=int(rng.integers(1<<30))); RB = Rotation.random(random_state=int(rng.integers(1<<30)))
    f1 = df.FieldRotator(f); f1.rotate('from_quat', RA.as_quat()); f1.rotate('from_quat', RB.as_quat())
    f2 = df.FieldRotator(f); f2.rotate('from_quat', (RB*RA).as_quat())
    if not (f1.field.mesh.allclose(f2.field.mesh) and np.allclose(f1.field.array, f2.field.array, atol=1e-9)): rec("compose", 1)
    f1.clear_rotation()
    if f1.field is not f and f1.field != f: rec("clear", 1)
    stats["cases"]+=1
for k in sorted(stats, key=str): print(k, stats[k], ex.get(k))

import warnings, numpy as np, discretisedfield as df
warnings.simplefilter("ignore")
rng = np.random.default_rng(1)
mesh = df.Mesh(p1=0, p2=5, n=5)
valid = np.array([1,1,0,1,1], bool)
a = rng.standard_normal((5,1)); b = rng.standard_normal((5,1))
f = df.Field(mesh, nvdim=1, value=a, valid=valid); g = df.Field(mesh, nvdim=1, value=b, valid=valid)
s = 2.0*f + 3.0*g
print("sum valid", s.valid, "f.valid", f.valid)
print(s.diff('x').array[:,0]); print(2*f.diff('x').array[:,0] + 3*g.diff('x').array[:,0])
al = np.float64(2.0)
s2 = al*f
print(type(s2), getattr(s2, 'valid', None))

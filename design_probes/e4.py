import warnings, numpy as np, discretisedfield as df, itertools
warnings.simplefilter("ignore")
rng = np.random.default_rng(0)
# subregion acceptance across scales: subregions built from the mesh's own vertices
fails = {}
for scale in [1e-12, 1e-9, 1e-6, 1e-3, 1, 1e3, 1e6]:
    bad = 0; tot = 0
    for trial in range(300):
        nd = rng.integers(1, 4)
        n = rng.integers(1, 9, size=nd)
        p1 = (rng.random(nd) - 0.5) * scale * rng.choice([0, 1, 10, 1000])
        edges = rng.random(nd) * scale + 0.01 * scale
        mesh = df.Mesh(p1=tuple(p1.tolist()), p2=tuple((p1 + edges).tolist()), n=tuple(n.tolist()))
        verts = mesh.vertices
        lo = [rng.integers(0, k) for k in n]; hi = [rng.integers(l + 1, k + 1) for l, k in zip(lo, n)]
        sp1 = [float(verts[d][lo[d]]) for d in range(nd)]; sp2 = [float(verts[d][hi[d]]) for d in range(nd)]
        tot += 1
        try:
            mesh.subregions = {"s": df.Region(p1=sp1, p2=sp2)}
        except ValueError as e:
            bad += 1
            fails.setdefault(scale, str(e)[:80])
    print(scale, bad, "/", tot)
print(fails)

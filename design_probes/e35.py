import warnings, numpy as np, discretisedfield as df, itertools, collections
warnings.simplefilter("ignore")
rng = np.random.default_rng(23)
stats = collections.Counter(); ex={}
def rec(k, v): stats[k]+=1; ex.setdefault(k, v)
for trial in range(200):
    nd = int(rng.integers(1, 5)); n = tuple(int(k) for k in rng.integers(1, 6, size=nd))
    cell=(rng.random(nd)+0.2); dims = [str(x) for x in rng.permutation(['a','b','c','d','e','x','y'])[:nd]]
    bc = "".join(x for x in dims if rng.random()<0.4)
    mesh = df.Mesh(region=df.Region(p1=tuple(rng.standard_normal(nd)), p2=(0,)*nd, dims=dims).translate((0,)*nd), n=n, bc=bc) if False else None
    p1 = rng.standard_normal(nd)
    mesh = df.Mesh(region=df.Region(p1=tuple(p1), p2=tuple(p1+cell*np.array(n)), dims=dims), n=n, bc=bc)
    valid = rng.random(n) < (1.0 if rng.random()<0.5 else 0.8)
    vd = [f"q{i}" for i in range(nd)]; perm = rng.permutation(nd); mapping = {vd[i]: dims[perm[i]] for i in range(nd)}
    arr = rng.standard_normal((*n, nd))
    v = df.Field(mesh, nvdim=nd, value=arr, vdims=vd if nd>1 else None, vdim_mapping=mapping if nd>1 else None, valid=valid)
    s = df.Field(mesh, nvdim=1, value=arr[..., :1], valid=valid)
    comp = lambda j: df.Field(mesh, nvdim=1, value=arr[..., [list(perm).index(j)]], valid=valid)  # component mapped to axis j
    # grad
    g = s.grad
    if not all(np.array_equal(g.array[..., j], s.diff(dims[j]).array[...,0]) for j in range(nd)): rec("grad-comb", 1)
    if nd > 1:
        try:
            dv = v.div
            exp = sum(comp(j).diff(dims[j]).array for j in range(nd))
            if not np.allclose(dv.array, exp, atol=1e-12*max(1,np.abs(exp).max())): rec("div-comb", 1)
        except Exception as e: rec("div-raise", repr(e)[:80])
    else:
        try:
            dv = v.div
            if not np.allclose(dv.array, s.diff(dims[0]).array): rec("div1d", 1)
        except Exception as e: rec(("div-1d-raise"), repr(e)[:100])
    if nd == 3:
        c = v.curl
        d_ = lambda j, ax: comp(j).diff(dims[ax]).array[...,0]
        exp = np.stack([d_(2,1)-d_(1,2), d_(0,2)-d_(2,0), d_(1,0)-d_(0,1)], -1)
        if not np.allclose(c.array, exp, atol=1e-12*max(1,np.abs(exp).max())): rec("curl-comb", 1)
        if valid.all():
            tol = 1e-9*np.abs(arr).max()/min(cell)**2
            if np.abs(s.grad.curl.array).max() > tol: rec(("curlgrad", bc), np.abs(s.grad.curl.array).max())
            if np.abs(v.curl.div.array).max() > tol: rec(("divcurl", bc), np.abs(v.curl.div.array).max())
    l = v.laplace
    exp = np.stack([sum(df.Field(mesh, nvdim=1, value=arr[...,[i]], valid=valid).diff(dm, order=2).array[...,0] for dm in dims) for i in range(nd)], -1)
    if not np.allclose(l.array, exp, atol=1e-12*max(1,np.abs(exp).max())): rec("laplace-comb", 1)
    stats["cases"]+=1
for k in sorted(stats, key=str): print(k, stats[k], ex.get(k))

import warnings, numpy as np, discretisedfield as df, itertools, collections
warnings.simplefilter("ignore")
rng = np.random.default_rng(21)
stats = collections.Counter(); ex={}
def rec(k, v): stats[k]+=1; ex.setdefault(k, v)
def pointwise(src, res, label):
    for idx in res.mesh.indices:
        c = res.mesh.index2point(idx)
        try:
            sv = src(c if src.mesh.region.ndim>1 else float(c[0])); si = src.mesh.point2index(c)
        except Exception as e:
            rec((label, "src-lookup"), repr(e)[:60]); return
        if not np.array_equal(res.array[idx], sv): rec((label, "value"), 1); return
        if res.valid[idx] != src.valid[si]: rec((label, "valid"), 1); return
for trial in range(400):
    nd = int(rng.integers(1, 5)); n = tuple(int(k) for k in rng.integers(1, 6, size=nd))
    scale = float(rng.choice([1e-9, 1e-3, 1])); cell=(rng.integers(1,20,size=nd)/10.0)*scale; p1 = rng.integers(-20,20,size=nd)*cell*rng.choice([0,1])
    mesh = df.Mesh(p1=tuple(p1.tolist()), p2=tuple((p1+cell*np.array(n)).tolist()), n=n)
    nv = int(rng.integers(1,4)); arr = rng.standard_normal((*n,nv)); valid = rng.random(n)<0.7
    f = df.Field(mesh, nvdim=nv, value=arr, valid=valid)
    d = int(rng.integers(0, nd)); dim = mesh.region.dims[d]
    # plane sel at random interior
    i = int(rng.integers(0, n[d])); val = float(mesh.region.pmin[d] + (i + rng.uniform(0.05,0.95))*mesh.cell[d])
    r = f.sel(**{dim: val})
    if nd > 1:
        if list(r.mesh.region.dims) != [x for x in mesh.region.dims if x != dim]: rec("plane-dims",1)
        exp = np.take(arr, i, axis=d)
        if not (np.array_equal(r.array, exp) and np.array_equal(r.valid, np.take(valid, i, axis=d))): rec("plane-values", 1)
    else:
        if not np.array_equal(np.asarray(r), arr[i]): rec("plane-1d", (r, arr[i]))
    # central
    r = f.sel(dim)
    ci = n[d]//2 if n[d] % 2 == 1 else None
    if nd > 1 and ci is not None and not np.array_equal(r.array, np.take(arr, ci, axis=d)): rec("central-odd", 1)
    if nd > 1 and ci is None:
        ok = any(np.array_equal(r.array, np.take(arr, j, axis=d)) for j in (n[d]//2-1, n[d]//2))
        if not ok: rec("central-even", 1)
    # range interior
    a = int(rng.integers(0, n[d])); b = int(rng.integers(a, n[d]))
    lo = float(mesh.region.pmin[d] + (a + rng.uniform(0.05,0.95))*mesh.cell[d]); hi = float(mesh.region.pmin[d] + (b + rng.uniform(0.05,0.95))*mesh.cell[d])
    if lo > hi: lo, hi = hi, lo
    r = f.sel(**{dim: (hi, lo) if rng.random()<0.3 else (lo, hi)})
    sl = [slice(None)]*nd; sl[d] = slice(a, b+1)
    if not (np.array_equal(r.array, arr[tuple(sl)]) and np.array_equal(r.valid, valid[tuple(sl)])): rec("range-values", (n, a, b, r.array.shape))
    pointwise(f, r, "range")
    # pad
    l, rr = int(rng.integers(0,3)), int(rng.integers(0,3)); mode = str(rng.choice(["constant","edge","wrap"]))
    p = f.pad({dim: (l, rr)}, mode=mode)
    if p.mesh.n[d] != n[d]+l+rr or not np.isclose(p.mesh.region.pmin[d], mesh.region.pmin[d]-l*mesh.cell[d], rtol=1e-12, atol=1e-12*scale): rec("pad-mesh", 1)
    core = [slice(None)]*nd; core[d] = slice(l, l+n[d])
    if not (np.array_equal(p.array[tuple(core)], arr) and np.array_equal(p.valid[tuple(core)], valid)): rec("pad-core", 1)
    for j in list(range(0, l)) + list(range(l+n[d], l+n[d]+rr)):
        src_j = {"constant": None, "edge": min(max(j-l,0), n[d]-1), "wrap": (j-l) % n[d]}[mode]
        got = np.take(p.array, j, axis=d); gv = np.take(p.valid, j, axis=d)
        if src_j is None:
            if not (np.all(got==0) and not gv.any()): rec("pad-constant", 1)
        elif not (np.array_equal(got, np.take(arr, src_j, axis=d)) and np.array_equal(gv, np.take(valid, src_j, axis=d))): rec(("pad", mode), (n[d], l, rr, j))
    # resample
    n2 = tuple(int(k) for k in rng.integers(1, 7, size=nd))
    r = f.resample(n2)
    if r.mesh.region != mesh.region: rec("resample-region", 1)
    # interior arbitrary box getitem (not vertex aligned)
    lo_i = [int(rng.integers(0,k)) for k in n]; hi_i=[int(rng.integers(l_,k)) for l_,k in zip(lo_i,n)]
    bp1 = [float(mesh.region.pmin[j] + (lo_i[j]+rng.uniform(0.05,0.95))*mesh.cell[j]) for j in range(nd)]
    bp2 = [float(mesh.region.pmin[j] + (hi_i[j]+rng.uniform(0.05,0.95))*mesh.cell[j]) for j in range(nd)]
    if all(a_<b_ for a_,b_ in zip(bp1,bp2)):
        try:
            g = f[df.Region(p1=bp1, p2=bp2)]
            sl = tuple(slice(a_, b_+1) for a_,b_ in zip(lo_i,hi_i))
            if not (np.array_equal(g.array, arr[sl]) and np.array_equal(g.valid, valid[sl])): rec("getitem-interior", (n, lo_i, hi_i, g.array.shape))
        except Exception as e:
            rec("getitem-interior-raise", repr(e)[:80])
    stats["cases"]+=1
for k in sorted(stats, key=str): print(k, stats[k], ex.get(k))

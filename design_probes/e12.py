import warnings, numpy as np, discretisedfield as df, itertools, collections
warnings.simplefilter("ignore")
rng = np.random.default_rng(6)
stats = collections.Counter(); ex={}
def rec(k, v): stats[k]+=1; ex.setdefault(k, v)
Qk = {0: ((1,0),(0,1)), 1: ((0,-1),(1,0)), 2: ((-1,0),(0,-1)), 3: ((0,1),(-1,0))}
for trial in range(300):
    nd = int(rng.integers(2, 5)); n = rng.integers(1, 5, size=nd)
    dims = ['a','b','c','d'][:nd]
    p1 = rng.standard_normal(nd); cell = rng.random(nd)+0.2
    reg = df.Region(p1=tuple(p1), p2=tuple(p1+cell*n), dims=dims, units=[f'u{i}' for i in range(nd)])
    verts = None
    mesh = df.Mesh(region=reg, n=tuple(int(k) for k in n))
    verts = mesh.vertices
    lo = [int(rng.integers(0, k)) for k in n]; hi = [int(rng.integers(l+1, k+1)) for l,k in zip(lo,n)]
    try:
        mesh.subregions = {'s': df.Region(p1=[float(verts[d][lo[d]]) for d in range(nd)], p2=[float(verts[d][hi[d]]) for d in range(nd)])}
    except ValueError: pass
    nv = int(rng.choice([1, nd, nd, 3]))
    arr = rng.standard_normal((*n, nv)); valid = rng.random(tuple(n)) < 0.7
    if nv == nd:
        perm = rng.permutation(nd); vd = [f'v{i}' for i in range(nd)]
        mapping = {vd[i]: dims[perm[i]] for i in range(nd)}
        f = df.Field(mesh, nvdim=nv, value=arr, vdims=vd, vdim_mapping=mapping, valid=valid)
    elif nv == 1:
        f = df.Field(mesh, nvdim=1, value=arr, valid=valid); mapping = {}
    else:
        continue
    i1, i2 = rng.choice(nd, size=2, replace=False); ax1, ax2 = dims[i1], dims[i2]
    k = int(rng.integers(-6, 7))
    ref = None if rng.random()<0.5 else tuple(rng.standard_normal(nd)*3)
    g = f.rotate90(ax1, ax2, k=k, reference_point=ref)
    R = np.array(mesh.region.center if ref is None else ref)
    Q = np.array(Qk[k % 4], dtype=float)
    bad = False
    for idx in mesh.indices:
        p = mesh.index2point(idx); q = p.copy()
        d = np.array([p[i1]-R[i1], p[i2]-R[i2]]); dq = Q @ d
        q[i1] = R[i1]+dq[0]; q[i2] = R[i2]+dq[1]
        try:
            gi = g.mesh.point2index(q)
        except Exception as e:
            rec("point-outside", (repr(e)[:60])); bad=True; break
        val = f.array[idx].copy()
        if nv > 1:
            c1 = vd.index([kk for kk,vv in mapping.items() if vv==ax1][0]); c2 = vd.index([kk for kk,vv in mapping.items() if vv==ax2][0])
            w = Q @ np.array([val[c1], val[c2]]); val[c1], val[c2] = w
        if not np.allclose(g.array[gi], val, atol=1e-12): rec("value", (n.tolist(), ax1, ax2, k)); bad=True; break
        if g.valid[gi] != f.valid[idx]: rec("valid", 1); bad=True; break
        if not np.allclose(g.mesh.index2point(gi), q, atol=1e-9): rec("centre", 1); bad = True; break
    # units
    eu = list(reg.units)
    if k % 2: eu[i1], eu[i2] = eu[i2], eu[i1]
    if list(g.mesh.region.units) != eu: rec("units", 1)
    # in place
    import copy
    f2 = df.Field(df.Mesh(region=df.Region(p1=reg.pmin, p2=reg.pmax, dims=dims, units=reg.units), n=mesh.n, subregions=mesh.subregions), nvdim=nv, value=arr, vdims=f.vdims, vdim_mapping=f.vdim_mapping, valid=valid)
    r = f2.rotate90(ax1, ax2, k=k, reference_point=ref, inplace=True)
    if r is not f2: rec("inplace-identity", 1)
    if not (np.allclose(f2.array, g.array) and np.array_equal(f2.valid, g.valid) and f2.mesh.allclose(g.mesh)): rec("inplace!=copy values/mesh", (k,))
    if f2.mesh.region.units != g.mesh.region.units: rec("inplace!=copy units", (k,))
    if {kk: (vv.pmin.round(9).tolist(), vv.pmax.round(9).tolist()) for kk,vv in f2.mesh.subregions.items()} != {kk: (vv.pmin.round(9).tolist(), vv.pmax.round(9).tolist()) for kk,vv in g.mesh.subregions.items()}: rec("inplace!=copy subregions", 1)
    if any(sr.units != f2.mesh.region.units for sr in f2.mesh.subregions.values()): rec("inplace subregion units != mesh units", 1)
    stats["cases"] += 1
for k in sorted(stats): print(k, stats[k], ex.get(k))

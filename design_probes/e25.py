import warnings, numpy as np, discretisedfield as df
warnings.simplefilter("ignore")
mesh = df.Mesh(p1=(0,0,0), p2=(2,3,4), n=(2,3,4))
f = df.Field(mesh, nvdim=2, value=(1,2))
print("mapping", f.vdim_mapping)
try:
    f.rotate90('x','y', inplace=True)
except Exception as e:
    print("raised", type(e).__name__)
print("after failed inplace rotate: mesh.n", f.mesh.n, "array shape", f.array.shape, "region", f.mesh.region.pmin, f.mesh.region.pmax)
# region translate complex
r = df.Region(p1=(0,0), p2=(1,1))
try:
    r.translate((1j, 0), inplace=True); print("complex translate inplace accepted", r.pmin)
except Exception as e: print("complex inplace raised", e)
try:
    r2 = df.Region(p1=(0,0), p2=(1,1)).translate((1j,0)); print("complex copy accepted", r2.pmin)
except Exception as e: print("complex copy raised", type(e).__name__, e)
# scale list w/ zero inplace on mesh
m = df.Mesh(p1=(0,0), p2=(2,2), n=(2,2), subregions={'s': df.Region(p1=(0,0), p2=(1,2))})
try:
    m.scale((1,0), inplace=True); print("mesh zero scale inplace accepted", m.region.pmin, m.region.pmax, m.cell)
except Exception as e: print("raised", e)
# negative scale on mesh copy
m = df.Mesh(p1=(0,0), p2=(2,2), n=(2,2), subregions={'s': df.Region(p1=(0,0), p2=(1,2))})
m2 = m.scale(-2); print(m2.region.pmin, m2.region.pmax, m2.subregions['s'].pmin, m2.subregions['s'].pmax)
m.scale(-2, inplace=True); print(m.region.pmin, m.region.pmax, m.subregions['s'].pmin, m.subregions['s'].pmax, m.cell)
# scale reference point type
r = df.Region(p1=(0,0), p2=(2,2))
print(r.scale(2, reference_point=(0,0)).pmin)
try: r.scale(2, reference_point=[0,0]); print("list ref ok")
except Exception as e: print("list ref raised", type(e).__name__, e)
r1 = df.Region(p1=0, p2=2)
try: print(r1.scale(2, reference_point=0).pmin)
except Exception as e: print("1d real ref raised", type(e).__name__, e)

import warnings, numpy as np, discretisedfield as df, h5py, os, tempfile
with tempfile.TemporaryDirectory() as t:
    with h5py.File(t+"/l.h5","w") as f:
        f.create_dataset("field/mesh/region/p1", data=[0.,0.,0.])
        f.create_dataset("field/mesh/region/p2", data=[1.,2.,3.])
        f.create_dataset("field/mesh/n", data=[1,2,3])
        f.create_dataset("field/dim", data=3)
        f.create_dataset("field/array", data=np.arange(18.).reshape(1,2,3,3))
    try:
        g = df.Field.from_file(t+"/l.h5"); print("legacy OK", g.nvdim, g.array.shape)
    except Exception as e:
        print("legacy FAIL", type(e), e)

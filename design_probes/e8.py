import warnings, numpy as np, discretisedfield as df, itertools, collections
warnings.simplefilter("ignore")
rng = np.random.default_rng(2)
stats = collections.Counter(); ex = {}
def rec(key, info):
    stats[key]+=1; ex.setdefault(key, info)
for scale in [1e-12, 1e-9, 1e-3, 1, 1e3, 1e6]:
  for trial in range(400):
    nd = int(rng.integers(1, 4))
    n = rng.integers(1, 8, size=nd)
    off = rng.choice([0, 1, 100])
    p1 = (rng.random(nd) - 0.5) * scale * off
    if rng.random() < 0.3: p1 = np.round(p1 / scale) * scale
    cellv = (rng.integers(1, 20, size=nd) / 10.0) * scale if rng.random()<0.5 else (rng.random(nd)+0.1)*scale
    p2 = p1 + cellv * n
    try:
        mesh = df.Mesh(p1=tuple(p1.tolist()), p2=tuple(p2.tolist()), n=tuple(int(k) for k in n))
    except Exception as e:
        rec(("mesh-n-fail", scale), repr(e)); continue
    # by cell
    try:
        m2 = df.Mesh(p1=tuple(p1.tolist()), p2=tuple(p2.tolist()), cell=tuple(mesh.cell.tolist()))
        if not np.array_equal(m2.n, mesh.n): rec(("cell-n-mismatch", scale), (p1,p2,n,m2.n))
    except Exception as e:
        rec(("mesh-cell-reject", scale), repr(e)[:100])
    # incommensurate
    bad = mesh.cell.copy(); d = int(rng.integers(0, nd)); bad[d] = mesh.region.edges[d] / (n[d] + 0.37)
    try:
        df.Mesh(p1=tuple(p1.tolist()), p2=tuple(p2.tolist()), cell=tuple(bad.tolist()))
        rec(("incommensurate-accepted", scale), (p1, p2, bad))
    except ValueError:
        pass
    # round trip all indices
    for idx in mesh.indices:
        pt = mesh.index2point(idx)
        if mesh.point2index(pt) != idx: rec(("roundtrip", scale), (p1, p2, n, idx))
    # face points
    verts = mesh.vertices
    for _ in range(5):
        vi = [int(rng.integers(0, k + 1)) for k in n]
        pt = [float(verts[d][vi[d]]) for d in range(nd)]
        try:
            idx = mesh.point2index(pt)
        except Exception as e:
            rec(("face-reject", scale), (repr(e)[:80])); continue
        for d in range(nd):
            ok = idx[d] in (vi[d]-1, vi[d]) and 0 <= idx[d] < n[d]
            if not ok: rec(("face-wrongcell", scale), (p1,p2,n,vi,idx))
            exact = idx[d] == min(vi[d], n[d]-1)
            if not exact: rec(("face-lower-cell(rounding)", scale), (p1.tolist(),p2.tolist(),n.tolist(),vi,idx))
    # sel at vertex
    d = int(rng.integers(0, nd)); dim = mesh.region.dims[d]
    if nd > 1:
        vi = int(rng.integers(0, n[d]+1)); val = float(verts[d][vi])
        try:
            sm = mesh.sel(**{dim: val})
        except Exception as e:
            rec(("sel-vertex-raise", scale), (repr(e)[:100], p1.tolist(), p2.tolist(), n.tolist(), dim, val))
    # range sel between vertices
    a = int(rng.integers(0, n[d])); b = int(rng.integers(a, n[d]))
    lo = float(mesh.cells[d][a]); hi = float(mesh.cells[d][b])
    try:
        sm = mesh.sel(**{dim: (lo, hi)})
        if sm.n[d] != b - a + 1: rec(("selrange-n", scale), (n.tolist(), a, b, sm.n.tolist()))
    except Exception as e:
        rec(("selrange-raise", scale), (repr(e)[:100]))
    # getitem vertex-aligned box
    lo = [int(rng.integers(0, k)) for k in n]; hi = [int(rng.integers(l+1, k+1)) for l,k in zip(lo,n)]
    box = df.Region(p1=[float(verts[d][lo[d]]) for d in range(nd)], p2=[float(verts[d][hi[d]]) for d in range(nd)])
    try:
        sub = mesh[box]
        if not np.array_equal(sub.n, np.subtract(hi, lo)): rec(("getitem-n", scale), (p1.tolist(), p2.tolist(), n.tolist(), lo, hi, sub.n.tolist()))
    except Exception as e:
        rec(("getitem-raise", scale), (repr(e)[:100], p1.tolist(), p2.tolist(), n.tolist(), lo, hi))
for k in sorted(stats, key=str): print(k, stats[k], ex[k])

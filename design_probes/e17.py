import warnings, numpy as np, discretisedfield as df
import matplotlib; matplotlib.use("Agg")
import matplotlib.pyplot as plt
warnings.simplefilter("ignore")
mesh = df.Mesh(region=df.Region(p1=(0,0), p2=(3,2), dims=['a','b']), n=(3,2))
varr = np.arange(12.).reshape(3,2,2)
valid = np.array([[1,1],[0,1],[1,1]], bool)
v = df.Field(mesh, nvdim=2, value=varr, vdims=['p','q'], vdim_mapping={'p':'b','q':'a'}, valid=valid)
fig, ax = plt.subplots(); v.mpl.vector(ax=ax)
qv = ax.collections[0]
print(type(qv.U), qv.U, qv.V, qv.X, qv.Y)
print("expected U (a-comp = q) =", np.where(valid, varr[...,1], np.nan).T.ravel())

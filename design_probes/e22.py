import warnings, numpy as np, discretisedfield as df, itertools, collections
warnings.simplefilter("ignore")
rng = np.random.default_rng(12)
stats = collections.Counter(); ex={}
def rec(k, v): stats[k]+=1; ex.setdefault(k, v)
for trial in range(400):
    nd = int(rng.integers(1, 5)); n = tuple(int(k) for k in rng.integers(1, 5, size=nd))
    cell = rng.random(nd)+0.2; p1 = rng.standard_normal(nd)*5
    dims = list(rng.permutation(['a','b','c','d','e'])[:nd])
    mesh = df.Mesh(region=df.Region(p1=tuple(p1), p2=tuple(p1+cell*np.array(n)), dims=dims), n=n)
    nv = int(rng.integers(1,5))
    arr = rng.standard_normal((*n, nv))
    f = df.Field(mesh, nvdim=nv, value=arr)
    tot = f.integrate()
    if not np.allclose(tot, arr.reshape(-1, nv).sum(0)*np.prod(cell)): rec("total", 1)
    # Fubini any order
    order = list(rng.permutation(dims))
    g = f
    try:
        for d in order: g = g.integrate(d)
        if not np.allclose(np.asarray(g).reshape(-1), tot): rec("fubini", (order, g, tot))
    except Exception as e:
        rec("fubini-raise", (repr(e)[:100], nd, order))
    # directional
    d = int(rng.integers(0, nd)); dim = dims[d]
    di = f.integrate(dim)
    expd = arr.sum(axis=d)*cell[d]
    got = di.array if isinstance(di, df.Field) else np.asarray(di)
    if not np.allclose(got, expd): rec("directional", 1)
    if isinstance(di, df.Field):
        if list(di.mesh.region.dims) != [x for x in dims if x != dim]: rec("dir-dims", 1)
        if not np.allclose(di.mesh.cell, np.delete(cell, d)): rec("dir-cell", 1)
        if not np.allclose(di.mesh.region.pmin, np.delete(mesh.region.pmin, d)): rec("dir-pmin", 1)
    # cumulative
    cu = f.integrate(dim, cumulative=True)
    cs = np.cumsum(arr, axis=d); expc = (cs - arr/2)*cell[d]
    if not np.allclose(cu.array, expc): rec("cumulative", 1)
    # mean
    if not np.allclose(f.mean(), arr.reshape(-1, nv).mean(0)): rec("mean-all", 1)
    try:
        mm = f.mean(dim)
    except Exception as e:
        rec(('mean-dir-raise', nd), repr(e)[:60]); mm = f.mean([dim])
    gotm = mm.array if isinstance(mm, df.Field) else np.asarray(mm)
    if not np.allclose(gotm, arr.mean(axis=d)): rec("mean-dir", (nd,))
    if nd >= 3:
        ds = list(rng.permutation(dims)[:2]); axes = tuple(dims.index(x) for x in ds)
        m2 = f.mean(ds)
        if not np.allclose(m2.array, arr.mean(axis=axes)): rec("mean-multi", 1)
        if list(m2.mesh.region.dims) != [x for x in dims if x not in ds]: rec("mean-multi-dims", 1)
    stats["cases"]+=1
for k in sorted(stats, key=str): print(k, stats[k], ex.get(k))

import warnings, numpy as np, discretisedfield as df, itertools, collections
warnings.simplefilter("ignore")
rng = np.random.default_rng(15)
stats = collections.Counter(); ex={}
def rec(k, v): stats[k]+=1; ex.setdefault(k, v)
for trial in range(300):
    nd = int(rng.integers(1, 5)); n = tuple(int(k) for k in rng.integers(1, 5, size=nd))
    cell = rng.random(nd)+0.2; p1 = rng.standard_normal(nd)*5
    dims = [str(x) for x in rng.permutation(['a','b','c','d','e'])[:nd]]
    mesh = df.Mesh(region=df.Region(p1=tuple(p1), p2=tuple(p1+cell*np.array(n)), dims=dims), n=n)
    nv = int(rng.integers(1,5))
    arr = rng.standard_normal((*n, nv))
    src = df.Field(mesh, nvdim=nv, value=arr, valid=rng.random(n)<0.7)
    # iteration order
    it = list(src); order = list(mesh.indices)
    if not all(np.array_equal(v, arr[i]) for v, i in zip(it, order)) or len(it) != len(mesh): rec("iter", 1)
    # x fastest?
    if nd > 1 and len(order)>1 and not all(order[j][0] == (j % n[0]) for j in range(len(order))): rec("order-not-x-fastest", 1)
    # sample random points
    for _ in range(5):
        p = mesh.region.pmin + rng.random(nd)*mesh.region.edges
        idx = tuple(np.minimum(np.floor((p - mesh.region.pmin)/mesh.cell).astype(int), np.array(n)-1))
        if not np.array_equal(src(tuple(p) if nd>1 else float(p[0])), arr[idx]): rec("sample", 1)
    # target mesh inside src region (sub-box, different resolution)
    lo = mesh.region.pmin + rng.random(nd)*0.4*mesh.region.edges; hi = mesh.region.pmax - rng.random(nd)*0.4*mesh.region.edges
    n2 = tuple(int(k) for k in rng.integers(1, 6, size=nd))
    tm = df.Mesh(region=df.Region(p1=tuple(lo), p2=tuple(hi), dims=dims), n=n2)
    try:
        g = df.Field(tm, nvdim=nv, value=src)
    except Exception as e:
        rec("field-as-value-raise", repr(e)[:100]); continue
    for idx in tm.indices:
        c = tm.index2point(idx)
        # candidate source cells containing c (closed, tol)
        rel = (c - mesh.region.pmin)/mesh.cell
        cands = [sorted({int(np.clip(np.floor(r-1e-9),0,k-1)), int(np.clip(np.floor(r+1e-9),0,k-1))}) for r,k in zip(rel, n)]
        if not any(np.array_equal(g.array[idx], arr[ci]) for ci in itertools.product(*cands)): rec("field-as-value", 1); break
    # resample
    r = src.resample(n2)
    if r.mesh.region != mesh.region: rec("resample-region", 1)
    for idx in r.mesh.indices:
        c = r.mesh.index2point(idx); rel = (c - mesh.region.pmin)/mesh.cell
        cands = [sorted({int(np.clip(np.floor(x-1e-9),0,k-1)), int(np.clip(np.floor(x+1e-9),0,k-1))}) for x,k in zip(rel, n)]
        if not any(np.array_equal(r.array[idx], arr[ci]) and r.valid[idx]==src.valid[ci] for ci in itertools.product(*cands)): rec("resample-val/valid", 1); break
    # wrong specs
    f = df.Field(mesh, nvdim=nv, value=arr)
    snap = f.array.copy()
    for bad in [np.zeros((*n, nv+1)), tuple([1.0]*(nv+1)), "abc", None, np.zeros((*[k+1 for k in n], nv)), {"nosuch": 1}]:
        try:
            f.update_field_values(bad); rec(("bad-accepted", type(bad).__name__, np.shape(bad) if not isinstance(bad,(str,dict,type(None))) else ''), (n, nv))
        except Exception as e:
            pass
        if not np.array_equal(f.array, snap): rec("bad-changed-field", type(bad).__name__); f.array = snap
    stats["cases"]+=1
for k in sorted(stats, key=str): print(k, stats[k], ex.get(k))

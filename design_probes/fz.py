import sys; sys.path.insert(0, "/tmp/exp/deps")
import atheris
with atheris.instrument_imports(include=["discretisedfield.io"]):
    import discretisedfield as df
import discretisedfield.io.ovf as ovf
atheris.instrument_func  # exists?
cnt = [0]
def target(data):
    cnt[0]+=1
    open("/tmp/exp/fz.ovf","wb").write(data)
    try:
        df.Field.from_file("/tmp/exp/fz.ovf")
    except Exception:
        pass
atheris.Setup(sys.argv, target)
atheris.Fuzz()

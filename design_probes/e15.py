import warnings, numpy as np, discretisedfield as df, itertools, collections
from scipy.spatial.transform import Rotation
warnings.simplefilter("ignore")
rng = np.random.default_rng(9)
stats = collections.Counter(); ex={}
def rec(k, v): stats[k]+=1; ex.setdefault(k, v)
for trial in range(150):
    n = rng.integers(2, 7, size=3); cell = rng.random(3)+0.5; p1 = rng.standard_normal(3)*3
    mesh = df.Mesh(p1=tuple(p1), p2=tuple(p1+cell*n), n=tuple(int(k) for k in n))
    rot = Rotation.random(random_state=int(rng.integers(1<<30)))
    kind = rng.choice(["uniform-vec", "linear-scalar", "perm-vec"])
    c = mesh.region.center
    if kind == "uniform-vec":
        v = rng.standard_normal(3); f = df.Field(mesh, nvdim=3, value=tuple(v))
    elif kind == "perm-vec":
        v = rng.standard_normal(3); perm = rng.permutation(3); vd=['p','q','r']
        f = df.Field(mesh, nvdim=3, value=tuple(v), vdims=vd, vdim_mapping={vd[i]: 'xyz'[perm[i]] for i in range(3)})
    else:
        a = rng.standard_normal(3); b = rng.standard_normal()
        f = df.Field(mesh, nvdim=1, value=lambda p: b + a @ (np.asarray(p)-c))
    fr = df.FieldRotator(f)
    method = rng.choice(["from_quat","from_matrix","from_rotvec","from_euler"])
    if method=="from_quat": fr.rotate(method, rot.as_quat())
    elif method=="from_matrix": fr.rotate(method, rot.as_matrix())
    elif method=="from_rotvec": fr.rotate(method, rot.as_rotvec())
    else: fr.rotate(method, "xyz", rot.as_euler("xyz"))
    g = fr.field
    if not np.allclose(g.mesh.region.center, c): rec("centre", 1)
    # bounding box
    half = np.abs(rot.as_matrix()) @ (mesh.region.edges/2)
    if not np.allclose(g.mesh.region.edges/2, half): rec("bbox", (g.mesh.region.edges/2, half))
    Rm = rot.as_matrix()
    for idx in g.mesh.indices:
        q = g.mesh.index2point(idx); p = Rm.T @ (q - c) + c
        inside_by_cell = np.all(p >= mesh.region.pmin + mesh.cell) and np.all(p <= mesh.region.pmax - mesh.cell)
        outside = np.any(p < mesh.region.pmin - 1e-6*mesh.cell) or np.any(p > mesh.region.pmax + 1e-6*mesh.cell)
        val = g.array[idx]
        if outside:
            if not np.all(val == 0): rec(("outside-nonzero", kind), val)
        elif inside_by_cell:
            if kind == "uniform-vec": exp = Rm @ v
            elif kind == "perm-vec":
                vax = np.zeros(3)
                for i in range(3): vax[perm[i]] = v[i]
                w = Rm @ vax; exp = np.array([w[perm[i]] for i in range(3)])
            else: exp = b + a @ (p - c)
            if not np.allclose(val, exp, atol=1e-9): rec(("inside-value", kind), (val, exp))
    stats["cases"]+=1
for k in sorted(stats, key=str): print(k, stats[k], ex.get(k))

import warnings, numpy as np, discretisedfield as df
def tryit(name, fn):
    try:
        r = fn(); print(name, "->", r)
    except Exception as e:
        print(name, "RAISED", type(e).__name__, e)

# 1 scale inplace negative / zero
r = df.Region(p1=(0,0), p2=(2,4))
tryit("scale copy -1", lambda: (r.scale(-1).pmin, r.scale(-1).pmax))
r2 = df.Region(p1=(0,0), p2=(2,4)); r2.scale(-1, inplace=True)
print("scale inplace -1", r2.pmin, r2.pmax, r2.edges)
tryit("scale copy 0", lambda: r.scale(0))
r3 = df.Region(p1=(0,0), p2=(2,4)); tryit("scale inplace 0", lambda: (r3.scale(0, inplace=True).pmin, r3.pmax))
# 2 rotate90 inplace units
r = df.Region(p1=(0,0), p2=(2,4), units=('a','b'))
c = r.rotate90('x','y'); print("copy units", c.units)
r.rotate90('x','y', inplace=True); print("inplace units", r.units, r == c)
# 3 scalar * vector
mesh = df.Mesh(p1=(0,0,0), p2=(2,2,2), n=(2,2,2))
s = df.Field(mesh, nvdim=1, value=2.0)
v = df.Field(mesh, nvdim=3, value=(1,2,3), vdims=['a','b','c'], vdim_mapping={'a':'z','b':'y','c':'x'})
print("v*s", (v*s).vdims, (v*s).vdim_mapping)
print("s*v", (s*v).vdims, (s*v).vdim_mapping)
print("v+s", (v+s).vdims, (v+s).vdim_mapping, "s+v", (s+v).vdims, (s+v).vdim_mapping)
# 4 abs with custom vdims
tryit("abs custom vdims", lambda: (abs(v).vdims, abs(v).vdim_mapping))
v2 = df.Field(mesh, nvdim=3, value=(1,2,3), vdims=['a','b','c'])
tryit("abs custom vdims default mapping", lambda: (abs(v2).vdims, abs(v2).vdim_mapping))
# 5 dict default callable
mesh2 = df.Mesh(p1=(0,0,0), p2=(4,4,4), n=(4,4,4), subregions={'s': df.Region(p1=(0,0,0), p2=(1,4,4))})
f = df.Field(mesh2, nvdim=1, value={'s': 1.0, 'default': lambda p: p[0]+10*p[1]+100*p[2]})
exp = np.array([[[ (1.0 if i==0 else (i+.5)+10*(j+.5)+100*(k+.5)) for k in range(4)] for j in range(4)] for i in range(4)])
print("dict default callable ok?", np.allclose(f.array[...,0], exp))
# 6 line 1D
m1 = df.Mesh(p1=0, p2=10, n=10)
f1 = df.Field(m1, nvdim=1, value=lambda p: p)
tryit("line 1d", lambda: f1.line(p1=1, p2=9, n=5).data.shape)
tryit("line 1d tuple", lambda: f1.line(p1=(1,), p2=(9,), n=5).data.shape)
# 7 fftn single-cell
m = df.Mesh(p1=(0,0), p2=(4,2), n=(4,1))
k = m.fftn(); print("kmesh", k.region.pmin, k.region.pmax, k.n, [np.asarray(c) for c in k.cells])
# 8 from_xarray uneven nm
mx = df.Mesh(p1=(0,0), p2=(4e-9,3e-9), n=(4,3))
fx = df.Field(mx, nvdim=1, value=1.0)
xa = fx.to_xarray()
xa2 = xa.assign_coords(x=np.array([0.5e-9, 1.5e-9, 3.0e-9, 3.5e-9]))
tryit("uneven nm", lambda: df.Field.from_xarray(xa2).mesh)
mx = df.Mesh(p1=(0,0), p2=(4,3), n=(4,3))
xa = df.Field(mx, nvdim=1, value=1.0).to_xarray()
xa2 = xa.assign_coords(x=np.array([0.5, 1.5, 3.0, 3.5]))
tryit("uneven unit scale", lambda: df.Field.from_xarray(xa2).mesh)
# 9 int rotate k=3
mi = df.Mesh(p1=(0,0), p2=(2,2), n=(2,2))
fi = df.Field(mi, nvdim=2, value=(1,2), dtype=int)
for k in range(-4,5):
    print("k",k, fi.rotate90('x','y',k=k).array[0,0], end=' | ')
print()

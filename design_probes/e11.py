import warnings, numpy as np, discretisedfield as df, itertools, collections
warnings.simplefilter("ignore")
rng = np.random.default_rng(5)
mesh = df.Mesh(region=df.Region(p1=(0,0,0), p2=(4*0.5,5*0.7,6*1.1), dims=('a','b','c')), n=(4,5,6))
arr = rng.standard_normal((4,5,6,3))
s = df.Field(mesh, nvdim=1, value=arr[...,:1])
v = df.Field(mesh, nvdim=3, value=arr, vdims=['p','q','r'], vdim_mapping={'p':'c','q':'a','r':'b'})
def close(f, g):
    return f.mesh.allclose(g.mesh) and np.allclose(f.array, g.array, atol=1e-12)
for ax1, ax2 in itertools.permutations('abc', 2):
    for k in [1,2,3,-1]:
        r = lambda f: f.rotate90(ax1, ax2, k=k)
        try:
            res = dict(
              grad=close(r(s).grad, r(s.grad)),
              lap_s=close(r(s).laplace, r(s.laplace)),
              div=close(r(v).div, r(v.div)),
              lap_v=close(r(v).laplace.array and r(v).laplace, r(v.laplace)) if False else np.allclose(r(v).laplace.array, r(df.Field(mesh, nvdim=3, value=v.laplace.array, vdims=v.vdims, vdim_mapping=v.vdim_mapping)).array),
            )
            # curl: result labels x,y,z mapped positionally to a,b,c
            c1 = r(v).curl; c2 = r(v.curl)
            res['curl'] = close(c1, c2)
        except Exception as e:
            res = repr(e)
        if res != dict(grad=True, lap_s=True, div=True, lap_v=True, curl=True): print(ax1, ax2, k, res)
print("done")

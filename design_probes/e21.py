import warnings, numpy as np, discretisedfield as df
warnings.simplefilter("ignore")
mesh = df.Mesh(p1=(0,0), p2=(2,3), n=(2,3))
ops = {"neg": lambda f: -f, "abs": abs, "comp": lambda f: f.x, "norm": lambda f: f.norm, "orient": lambda f: f.orientation, "real": lambda f: f.real, "imag": lambda f: f.imag, "conj": lambda f: f.conjugate, "phase": lambda f: f.phase, "cabs": lambda f: f.abs,
  "diff": lambda f: f.diff('x'), "mul2": lambda f: f*2, "f+f": lambda f: f+f, "sel": lambda f: f.sel('x'), "selrange": lambda f: f.sel(x=(0.5,1.5)), "pad": lambda f: f.pad({'x':(1,1)}, mode='constant'),
  "getitem": lambda f: f[df.Region(p1=(0,0), p2=(2,3))], "resample": lambda f: f.resample((2,3)), "rot": lambda f: f.rotate90('x','y'), "dot": lambda f: f.dot(f), "lshift": lambda f: f.x << f.y, "pos": lambda f: +f, "angle": lambda f: f.angle((1,0)), "grad": lambda f: f.x.grad, "cross": None}
for name, op in ops.items():
    if op is None: continue
    f = df.Field(mesh, nvdim=2, value=(1,2), valid=np.array([[1,0,1],[1,1,1]], bool))
    g = op(f)
    before = f.valid.copy()
    g.valid[...] = ~g.valid
    print(f"{name:9s} shares={np.shares_memory(g.valid, f.valid)!s:5} operand-changed={not np.array_equal(before, f.valid)!s:5} same-object={g is f}")

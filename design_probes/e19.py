import warnings, numpy as np, discretisedfield as df, itertools, collections, operator
warnings.simplefilter("ignore")
rng = np.random.default_rng(11)
stats = collections.Counter(); ex={}
def rec(k, v): stats[k]+=1; ex.setdefault(k, v)
def mkfield(mesh, nv, dtype):
    n = tuple(mesh.n)
    if dtype == "int": arr = rng.integers(-5, 6, size=(*n, nv))
    elif dtype == "float": arr = rng.standard_normal((*n, nv))
    else: arr = rng.standard_normal((*n, nv)) + 1j*rng.standard_normal((*n, nv))
    vd = None if nv == 1 else [f"c{i}" for i in range(nv)]
    return df.Field(mesh, nvdim=nv, value=arr, vdims=vd, valid=rng.random(n)<0.7, dtype=arr.dtype if dtype!="float" else None)
binops = {"+": operator.add, "-": operator.sub, "*": operator.mul, "/": operator.truediv, "**": operator.pow}
for trial in range(1500):
    nd = int(rng.integers(1, 5)); n = tuple(int(k) for k in rng.integers(1, 4, size=nd))
    mesh = df.Mesh(p1=(0,)*nd, p2=tuple(float(k) for k in n), n=n)
    nv = int(rng.integers(1, 5))
    a = mkfield(mesh, nv, rng.choice(["int","float","complex"]))
    kind = rng.choice(["field-same", "field-scalar", "number", "vector-const", "array"])
    if kind == "field-same": b = mkfield(mesh, nv, rng.choice(["int","float","complex"])); bn = b.array; bv = b.valid
    elif kind == "field-scalar": b = mkfield(mesh, 1, rng.choice(["int","float","complex"])); bn = b.array; bv = b.valid
    elif kind == "number": b = [int(rng.integers(-3,4)), float(rng.standard_normal()), complex(rng.standard_normal(), 1.0)][rng.integers(0,3)]; bn = b; bv = True
    elif kind == "vector-const": b = tuple(rng.standard_normal(nv).tolist()); bn = np.array(b); bv=True
    else: b = rng.standard_normal((*n, nv)); bn = b; bv=True
    op = rng.choice(list(binops))
    order = rng.choice(["ab", "ba"])
    sa = (a.array.copy(), a.valid.copy(), a.vdims, dict(a.vdim_mapping))
    sb = (b.array.copy(), b.valid.copy(), b.vdims, dict(b.vdim_mapping)) if isinstance(b, df.Field) else None
    with np.errstate(all="ignore"):
        try:
            exp = binops[op](a.array, bn) if order=="ab" else binops[op](bn, a.array)
        except Exception as e:
            exp = e
        try:
            res = binops[op](a, b) if order=="ab" else binops[op](b, a)
        except Exception as e:
            res = e
    key = (op, kind, order)
    if isinstance(exp, Exception) or isinstance(res, Exception):
        if isinstance(exp, Exception) != isinstance(res, Exception): rec(("exc-mismatch",)+key, (repr(exp)[:80] if isinstance(exp, Exception) else "ok", repr(res)[:80] if isinstance(res, Exception) else "ok", a.array.dtype, getattr(bn,'dtype',type(bn))))
        continue
    if not isinstance(res, df.Field): rec(("notfield",)+key, type(res)); continue
    if res.array.shape != exp.shape or not np.array_equal(res.array, exp, equal_nan=True):
        rec(("value",)+key, (a.array.dtype, getattr(bn,'dtype',type(bn)), res.array.dtype, exp.dtype))
    if not np.array_equal(res.valid, a.valid & bv): rec(("valid",)+key, 1)
    if not (np.array_equal(sa[0], a.array) and np.array_equal(sa[1], a.valid) and sa[2]==a.vdims and sa[3]==a.vdim_mapping): rec(("mutated-a",)+key,1)
    if sb and not (np.array_equal(sb[0], b.array) and np.array_equal(sb[1], b.valid)): rec(("mutated-b",)+key,1)
    if np.shares_memory(res.valid, a.valid): rec(("shares-valid",)+key,1)
    stats["ok-cases"]+=1
for k in sorted(stats, key=str): print(k, stats[k], ex.get(k))

import warnings, numpy as np, discretisedfield as df, itertools, collections
warnings.simplefilter("ignore")
rng = np.random.default_rng(22)
stats = collections.Counter(); ex={}
def rec(k, v): stats[k]+=1; ex.setdefault(k, v)
for trial in range(300):
    nd = int(rng.integers(1, 5)); n = tuple(int(k) for k in rng.integers(1, 6, size=nd))
    cell=(rng.random(nd)+0.2); dims = ['a','b','c','d'][:nd]
    d = int(rng.integers(0, nd)); dim = dims[d]
    pbc = rng.random() < 0.4
    bc = "".join(x for x in dims if (x==dim and pbc) or rng.random()<0.2)
    mesh = df.Mesh(region=df.Region(p1=(0,)*nd, p2=tuple(cell*np.array(n)), dims=dims), n=n, bc=bc)
    per = dim in bc
    nv = int(rng.integers(1,4)); arr = rng.standard_normal((*n,nv)); valid = rng.random(n)<0.75
    order = int(rng.choice([1,2]))
    if per and not (valid.take(0, axis=d) | ~valid.take(-1, axis=d) | True).all(): pass
    f = df.Field(mesh, nvdim=nv, value=arr, valid=valid, unit="T", vdims=None if nv==1 else [f"c{i}" for i in range(nv)])
    D = f.diff(dim, order=order)
    if not (D.mesh == mesh and D.vdims == f.vdims and D.unit == "T" and np.array_equal(D.valid, valid)): rec("meta", 1)
    if not np.all(D.array[~valid] == 0): rec("invalid-nonzero", 1)
    # per-line equivalence with 1-d
    m1 = df.Mesh(p1=0, p2=float(cell[d]*n[d]), n=n[d], bc='x' if per else '')
    other = [range(k) for j,k in enumerate(n) if j != d]
    for rest in itertools.product(*other):
        idx = list(rest); idx.insert(d, slice(None)); idx = tuple(idx)
        for c in range(nv):
            f1 = df.Field(m1, nvdim=1, value=arr[idx][:, c][:, None], valid=valid[idx])
            if not np.array_equal(f1.diff('x', order=order).array[:,0], D.array[idx][:, c]): rec(("perline", per), 1); break
    # locality: redraw invalid cells' values
    arr2 = arr.copy(); arr2[~valid] = rng.standard_normal((int((~valid).sum()), nv))
    D2 = df.Field(mesh, nvdim=nv, value=arr2, valid=valid).diff(dim, order=order)
    if not np.array_equal(D2.array, D.array): rec(("locality-invalid-values", per), 1)
    # unrestricted == all-true
    U = f.diff(dim, order=order, restrict2valid=False)
    A = df.Field(mesh, nvdim=nv, value=arr).diff(dim, order=order)
    if not np.array_equal(U.array, A.array) or not np.array_equal(U.valid, valid): rec("unrestricted", 1)
    # linearity
    g = df.Field(mesh, nvdim=nv, value=rng.standard_normal((*n,nv)), valid=valid); al, be = (float(x) for x in rng.standard_normal(2))
    L = (al*f + be*g).diff(dim, order=order).array; R = al*D.array + be*g.diff(dim, order=order).array
    if not np.allclose(L, R, atol=1e-9*max(1, np.abs(R).max())): rec("linear", 1)
    stats["cases"]+=1
for k in sorted(stats, key=str): print(k, stats[k], ex.get(k))

import warnings, numpy as np, discretisedfield as df, itertools, collections
import discretisedfield.tools as dft
warnings.simplefilter("ignore")
rng = np.random.default_rng(19)
stats = collections.Counter(); ex={}
def rec(k, v): stats[k]+=1; ex.setdefault(k, v)
for trial in range(40):
    n = tuple(int(k) for k in rng.integers(8, 30, size=2)); cell = (rng.random(2)+0.5)*float(rng.choice([1e-9, 1]))
    p1 = rng.standard_normal(2)*cell*3
    mesh = df.Mesh(p1=tuple(p1), p2=tuple(p1+cell*np.array(n)), n=n)
    Q = int(rng.choice([1, -1, 2, -2, 3])); gam = rng.random()*2*np.pi
    c = mesh.region.center + (rng.random(2)-0.5)*0.2*mesh.region.edges; R = 0.35*min(mesh.region.edges)
    def val(p):
        x, y = p[0]-c[0], p[1]-c[1]; r = np.hypot(x, y); phi = np.arctan2(y, x)
        th = np.pi*(1-r/R) if r < R else 0.0
        return (np.sin(th)*np.cos(Q*phi+gam), np.sin(th)*np.sin(Q*phi+gam), np.cos(th))
    f = df.Field(mesh, nvdim=3, value=val)
    q = dft.topological_charge(f, method="berg-luescher")
    qc = dft.topological_charge(f, method="continuous")
    if abs(q-round(q))>1e-9: rec("bl-nonint", (q,Q,n))
    elif abs(round(q)) != abs(Q): rec("bl-wrong-int", (q, Q, n))
    stats[("sign", int(np.sign(round(q))*np.sign(Q)))]+=1
    stats["cases"]+=1
# hedgehog BP
for trial in range(20):
    n = tuple(int(k) for k in rng.integers(4, 9, size=3)); cell=(rng.random(3)+0.5)
    p1 = rng.standard_normal(3)
    mesh = df.Mesh(p1=tuple(p1), p2=tuple(p1+cell*np.array(n)), n=n)
    # centre at a vertex strictly inside
    ci = [int(rng.integers(1, k)) for k in n]; c = np.array([mesh.vertices[d][ci[d]] for d in range(3)])
    sgn = int(rng.choice([1,-1]))
    f = df.Field(mesh, nvdim=3, value=lambda p: sgn*(np.asarray(p)-c), norm=1)
    for d in 'xyz':
        r = dft.count_bps(f, d)
        exp_tt, exp_hh = (1,0) if sgn==1 else (0,1)
        if not (r["bp_number"]==1 and r["bp_number_tt"]==exp_tt and r["bp_number_hh"]==exp_hh): rec(("hedgehog", sgn, d), (n, ci, r))
    stats["bp-cases"]+=1
# neighbouring angle
for trial in range(50):
    nd = int(rng.integers(1,4)); n = tuple(int(k) for k in rng.integers(2, 5, size=nd)); cell=(rng.random(nd)+0.5)
    mesh = df.Mesh(p1=(0,)*nd, p2=tuple(cell*np.array(n)), n=n)
    arr = rng.standard_normal((*n,3)); f = df.Field(mesh, nvdim=3, value=arr)
    d = int(rng.integers(0,nd)); dim = mesh.region.dims[d]
    a = dft.neighbouring_cell_angle(f, direction=dim)
    u = arr/np.linalg.norm(arr, axis=-1, keepdims=True)
    s1 = [slice(None)]*nd; s2=[slice(None)]*nd; s1[d]=slice(0,-1); s2[d]=slice(1,None)
    exp = np.arccos(np.clip((u[tuple(s1)]*u[tuple(s2)]).sum(-1), -1, 1))
    en = list(n); en[d]-=1
    if not (np.allclose(a.array[...,0], exp) and np.array_equal(a.mesh.n, en) and a.array.min()>=0 and a.array.max()<=np.pi and np.allclose(a.mesh.cell, mesh.cell)): rec("angle", 1)
    ep1 = mesh.region.pmin.astype(float).copy(); ep1[d]+=cell[d]/2
    if not np.allclose(a.mesh.region.pmin, ep1): rec("angle-mesh-pos", 1)
for k in sorted(stats, key=str): print(k, stats[k], ex.get(k))

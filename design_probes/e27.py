import warnings, numpy as np, discretisedfield as df, itertools, collections
warnings.simplefilter("ignore")
rng = np.random.default_rng(16)
stats = collections.Counter(); ex={}
def rec(k, v): stats[k]+=1; ex.setdefault(k, v)
for trial in range(300):
    nd = int(rng.integers(1, 5)); n = tuple(int(k) for k in rng.integers(1, 5, size=nd))
    scale = float(rng.choice([1e-9, 1, 1e3]))
    cell = (rng.random(nd)+0.2)*scale; p1 = rng.standard_normal(nd)*5*scale
    dims = [str(x) for x in rng.permutation(['a','b','c','d','e'])[:nd]]; units=[str(x) for x in rng.choice(['m','s','nm'], size=nd)]
    mesh = df.Mesh(region=df.Region(p1=tuple(p1), p2=tuple(p1+cell*np.array(n)), dims=dims, units=units, tolerance_factor=1e-10), n=n)
    nv = int(rng.integers(1,5)); dt = rng.choice(["f","c","i"])
    arr = rng.standard_normal((*n, nv))
    if dt=="c": arr = arr+1j
    if dt=="i": arr = rng.integers(-5,5,size=(*n,nv))
    vd = None if nv==1 else [f"c{i}" for i in range(nv)]
    f = df.Field(mesh, nvdim=nv, value=arr, vdims=vd, unit="T", dtype=arr.dtype)
    xa = f.to_xarray()
    for i,d in enumerate(dims):
        if not np.array_equal(xa[d].values, np.asarray(mesh.cells[i])): rec("coords", 1)
        if xa[d].attrs.get("units") != units[i]: rec("coord-units", 1)
    if nv>1 and list(xa["vdims"].values) != vd: rec("vdims-coord", 1)
    a = xa.attrs
    if not (np.array_equal(a["cell"], mesh.cell) and np.array_equal(a["pmin"], mesh.region.pmin) and np.array_equal(a["pmax"], mesh.region.pmax) and a["nvdim"]==nv and a["units"]=="T" and a["tolerance_factor"]==1e-10): rec("attrs", 1)
    g = df.Field.from_xarray(xa)
    if not (g == f and g.vdims == f.vdims and g.array.dtype == f.array.dtype and g.mesh.region.dims == mesh.region.dims and g.mesh.region.units == mesh.region.units): rec("roundtrip", (g.vdims, f.vdims, g.array.dtype, f.array.dtype))
    if g.unit != f.unit: rec("unit-not-restored", g.unit)
    # attribute-free
    xb = xa.copy(); 
    for k in ["cell","pmin","pmax","units","tolerance_factor"]: xb.attrs.pop(k)
    if all(k>1 for k in n):
        try:
            h = df.Field.from_xarray(xb)
            if not (np.allclose(h.mesh.region.pmin, mesh.region.pmin, rtol=1e-9, atol=1e-9*scale) and np.allclose(h.mesh.region.pmax, mesh.region.pmax, rtol=1e-9, atol=1e-9*scale) and np.array_equal(h.mesh.n, n) and np.array_equal(h.array, f.array)): rec("attrfree-mesh", (h.mesh.region.pmin-mesh.region.pmin))
        except Exception as e:
            rec(("attrfree-raise", scale), repr(e)[:120])
    else:
        try: df.Field.from_xarray(xb); rec("attrfree-single-cell-accepted", 1)
        except KeyError: pass
        except Exception as e: rec("attrfree-single-other-exc", repr(e)[:80])
    stats["cases"]+=1
for k in sorted(stats, key=str): print(k, stats[k], ex.get(k))

import warnings, numpy as np, discretisedfield as df, itertools, collections, tempfile, os
warnings.simplefilter("ignore")
rng = np.random.default_rng(7)
stats = collections.Counter(); ex={}
def rec(k, v): stats[k]+=1; ex.setdefault(k, v)
with tempfile.TemporaryDirectory() as t:
  for trial in range(120):
    n = rng.integers(1, 5, size=3)
    scale = rng.choice([1e-9, 1, 1e3]); off = rng.choice([0, 1, 50])
    p1 = (rng.random(3)-0.5)*scale*off; cell = (rng.random(3)+0.2)*scale
    mesh = df.Mesh(p1=tuple(p1), p2=tuple(p1+cell*n), n=tuple(int(k) for k in n))
    nv = int(rng.integers(1, 5))
    vd = None if nv == 1 else [f"c{i}" for i in range(nv)]
    arr = rng.standard_normal((*n, nv))*rng.choice([1e-6,1,1e6]); valid = rng.random(tuple(n)) < 0.7
    f = df.Field(mesh, nvdim=nv, value=arr, vdims=vd, valid=valid)
    grid = f.to_vtk()
    # FindCell lookups
    for _ in range(5):
        p = mesh.region.pmin + rng.random(3)*mesh.region.edges
        cid = grid.FindPoint(p) if False else grid.FindCell(p.tolist(), None, 0, 0.0, __import__('vtkmodules.vtkCommonCore', fromlist=['reference']).reference(0), [0,0,0], [0]*8)
        idx = mesh.point2index(p)
        cd = grid.GetCellData()
        fv = np.array(cd.GetArray("field").GetTuple(cid)); vv = cd.GetArray("valid").GetTuple1(cid); nn = cd.GetArray("norm").GetTuple1(cid)
        if not np.array_equal(fv, f.array[idx]): rec("findcell-value", 1)
        if bool(vv) != bool(f.valid[idx]): rec("findcell-valid", 1)
        if not np.isclose(nn, np.linalg.norm(f.array[idx])): rec("findcell-norm", 1)
        if nv > 1:
            for ci, c in enumerate(vd):
                if cd.GetArray(c).GetTuple1(cid) != f.array[idx][ci]: rec("findcell-comp", 1)
    for rep in ["bin", "txt", "xml"]:
        fn = os.path.join(t, f"x_{trial}_{rep}.vtk")
        f.to_file(fn, representation=rep)
        g = df.Field.from_file(fn)
        tol = dict(rtol=1e-9, atol=0) if rep == "txt" else dict(rtol=0, atol=0)
        if not np.array_equal(g.mesh.n, mesh.n): rec(("n", rep), 1)
        if rep == "txt":
            if not (np.allclose(g.mesh.region.pmin, mesh.region.pmin, rtol=1e-9, atol=1e-9*scale) and np.allclose(g.mesh.region.pmax, mesh.region.pmax, rtol=1e-9, atol=1e-9*scale)): rec(("region", rep), (mesh.region.pmin, g.mesh.region.pmin))
            if not np.allclose(g.array, f.array, rtol=1e-9, atol=0): rec(("values", rep), np.max(np.abs(g.array-f.array)/np.abs(f.array)))
        else:
            if not (np.array_equal(g.mesh.region.pmin, mesh.region.pmin) and np.array_equal(g.mesh.region.pmax, mesh.region.pmax)): rec(("region", rep), (mesh.region.pmin-g.mesh.region.pmin, mesh.region.pmax-g.mesh.region.pmax))
            if not np.array_equal(g.array, f.array): rec(("values", rep), 1)
        if not np.array_equal(g.valid, f.valid): rec(("valid", rep), 1)
        if g.vdims != f.vdims and not (nv==1): rec(("vdims", rep), (g.vdims, f.vdims))
    stats["cases"]+=1
for k in sorted(stats, key=str): print(k, stats[k], ex.get(k))

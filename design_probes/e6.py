import warnings, numpy as np, discretisedfield as df, itertools
warnings.simplefilter("ignore")
import discretisedfield.tools.tools as T
def _N_element(x, y, z, cell, function):
    dx, dy, dz = cell
    value = 0.0
    for i in itertools.product([0, 1], repeat=6):
        value += (-1) ** np.sum(i) * function(x + (i[0] - i[3]) * dx, y + (i[1] - i[4]) * dy, z + (i[2] - i[5]) * dz)
    return -value / (4 * np.pi * np.prod(cell))
def _N(mesh):
    dx, dy, dz = mesh.cell
    def _inner(p):
        x, y, z = p
        return (
            _N_element(x, y, z, (dx,dy,dz), T._f),
            _N_element(y, z, x, (dy,dz,dx), T._f),
            _N_element(z, x, y, (dz,dx,dy), T._f),
            _N_element(x, y, z, (dx,dy,dz), T._g),
            _N_element(x, z, y, (dx,dz,dy), T._g),
            _N_element(y, z, x, (dy,dz,dx), T._g),
        )
    return _inner
T._N = _N
import discretisedfield.tools as dft
for cell, n in [((1,1,1),(2,3,2)), ((1,2,3),(2,2,2)), ((2e-9,1e-9,1e-9),(3,2,2)), ((1,1,2),(2,2,1))]:
    mesh = df.Mesh(p1=(0,0,0), p2=tuple(c*k for c,k in zip(cell,n)), n=n)
    t1 = dft.demag_tensor(mesh)
    tr = (t1.array[...,0]+t1.array[...,1]+t1.array[...,2])
    # real-space trace
    rs = t1.ifftn().array; trr = (rs[...,0]+rs[...,1]+rs[...,2]).real
    c = tuple(k-1 for k in n)
    print(cell, n, "|trace| range", abs(tr).min(), abs(tr).max(), "real-space trace at centre", trr[c], "max elsewhere", np.abs(np.where(np.indices(trr.shape).transpose(1,2,3,0)==np.array(c), 0, 1).any(-1)*trr).max())
    H = [dft.demag_field(df.Field(mesh, nvdim=3, value=v), t1).mean() for v in [(1,0,0),(0,1,0),(0,0,1)]]
    print("   Hxx,Hyy,Hzz", H[0][0], H[1][1], H[2][2], "sum", H[0][0]+H[1][1]+H[2][2])

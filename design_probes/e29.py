import warnings, numpy as np, discretisedfield as df, itertools, collections
import discretisedfield.tools as dft
from scipy.spatial.transform import Rotation
warnings.simplefilter("ignore")
rng = np.random.default_rng(18)
stats = collections.Counter(); ex={}
def rec(k, v): stats[k]+=1; ex.setdefault(k, v)
def skyrmion(mesh, Q=1, R=None, c=None):
    c = mesh.region.center if c is None else c
    R = min(mesh.region.edges)/4 if R is None else R
    def val(p):
        x, y = p[0]-c[0], p[1]-c[1]; r = np.hypot(x, y); phi = np.arctan2(y, x)
        th = 2*np.arctan2(R, r) if r>0 else np.pi  # pi at centre -> 0 far away
        return (np.sin(th)*np.cos(Q*phi), np.sin(th)*np.sin(Q*phi), np.cos(th))
    return val
for trial in range(40):
    n = tuple(int(k) for k in rng.integers(16, 30, size=2)); cell = (rng.random(2)+0.5)*float(rng.choice([1e-9, 1]))
    p1 = rng.standard_normal(2)*cell*3
    mesh = df.Mesh(p1=tuple(p1), p2=tuple(p1+cell*np.array(n)), n=n)
    Q = int(rng.choice([1, -1, 2]))
    f = df.Field(mesh, nvdim=3, value=skyrmion(mesh, Q))
    valid = rng.random(n) < (1.0 if rng.random()<0.5 else 0.9)
    fm = df.Field(mesh, nvdim=3, value=f.array, valid=valid)
    for method in ["continuous", "berg-luescher"]:
        q0 = dft.topological_charge(f, method=method)
        if method == "berg-luescher" and abs(q0 - round(q0)) > 1e-6: rec(("bl-noninteger"), (q0, Q, n))
        # invariances (with mask)
        base = dft.topological_charge(fm, method=method)
        Rm = Rotation.random(random_state=int(rng.integers(1<<30))).as_matrix()
        rot = df.Field(mesh, nvdim=3, value=fm.array @ Rm.T, valid=valid)
        if not np.isclose(dft.topological_charge(rot, method=method), base, atol=1e-9): rec(("rot-inv", method), (dft.topological_charge(rot, method=method), base))
        sc = df.Field(mesh, nvdim=3, value=fm.array * (rng.random((*n,1))+0.5), valid=valid)
        if not np.isclose(dft.topological_charge(sc, method=method), base, atol=1e-9): rec(("len-inv", method), 1)
        neg = df.Field(mesh, nvdim=3, value=-fm.array, valid=valid)
        if not np.isclose(dft.topological_charge(neg, method=method), -base, atol=1e-9): rec(("reverse", method), 1)
        m2 = mesh.scale(float(rng.random()*3+0.2)).translate(tuple(rng.standard_normal(2)*mesh.region.edges))
        if not np.isclose(dft.topological_charge(df.Field(m2, nvdim=3, value=fm.array, valid=valid), method=method), base, atol=1e-9): rec(("mesh-scale-translate", method), 1)
        k = int(rng.integers(1,4))
        # quarter turn of the sample: rotate field positions and vectors in plane
        fmm = df.Field(mesh, nvdim=3, value=fm.array, valid=valid, vdim_mapping={'x':'x','y':'y','z':'zz'}); r90 = fmm.rotate90('x','y',k=k)
        if not np.isclose(dft.topological_charge(r90, method=method), base, atol=1e-9): rec(("rot90", method), (dft.topological_charge(r90, method=method), base))
        u = df.Field(mesh, nvdim=3, value=tuple(rng.standard_normal(3)), valid=valid)
        if abs(dft.topological_charge(u, method=method)) > 1e-12: rec(("uniform", method), 1)
    stats["cases"]+=1
for k in sorted(stats, key=str): print(k, stats[k], ex.get(k))
